#!/venv/bin/python
"""Single entry point of the bqsim checks (never `python -m`, which would load
the module twice).

  run_check.py C10 --tier quick|thorough [--runs N] [--workers N]
  run_check.py --replay replays/<file>.json [--quiet]
  run_check.py C10 --tier quick --digests 0,7,14     (determinism self-test helper)
  run_check.py C10 --tier quick --one 123 [--log]    (execute a single run, print outcome)

Exit codes: 0 property held on everything explored; 1 violation (line
"VIOLATION property=<id> replay=<path>"); 2 harness error (never a VIOLATION).
"""

import argparse
import json
import os
import sys

HERE = os.path.dirname(os.path.abspath(__file__))
if HERE not in sys.path:
    sys.path.insert(1, HERE)

# Fixed PYTHONHASHSEED: str hashing would otherwise change set iteration order
# between processes (a determinism breaker); re-exec once if it is not pinned.
if os.environ.get('PYTHONHASHSEED') is None:
    os.environ['PYTHONHASHSEED'] = '0'
    os.execv(sys.executable, [sys.executable] + sys.argv)

from bqsim import core  # noqa: E402

# tier -> (runs, wall cap seconds, determinism self-test runs)
TIERS = {
    'C09': {'quick': (3000, 240, 16), 'thorough': (60000, 1500, 48)},
    'C10': {'quick': (12000, 240, 16), 'thorough': (400000, 1500, 48)},
    'C12': {'quick': (3200, 240, 16), 'thorough': (60000, 1500, 48)},
    'C19': {'quick': (2700, 240, 12), 'thorough': (40000, 1500, 32)},
    'C20': {'quick': (3000, 240, 16), 'thorough': (60000, 1500, 48)},
}
DEFAULT_SEED = 20260926


def main():
    ap = argparse.ArgumentParser()
    ap.add_argument('prop', nargs='?')
    ap.add_argument('--tier', default=os.environ.get('VERIF_TIER', 'quick'), choices=['quick', 'thorough'])
    ap.add_argument('--runs', type=int)
    ap.add_argument('--workers', type=int, default=min(16, os.cpu_count() or 1))
    ap.add_argument('--cap', type=int, help='wall cap in seconds')
    ap.add_argument('--replay')
    ap.add_argument('--quiet', action='store_true')
    ap.add_argument('--digests')
    ap.add_argument('--one', type=int)
    ap.add_argument('--log', action='store_true')
    ap.add_argument('--selftest-import', action='store_true')
    args = ap.parse_args()

    if args.selftest_import:
        bq = core.bootstrap()
        import hypothesis  # noqa: F401  (present in /venv; not used as the driver, see DESIGN.md section 7)
        print('bqsim ready; beanquery from', os.path.dirname(bq.__file__))
        return 0

    from bqsim import driver

    if args.replay:
        ok, doc, out = driver.replay_file(args.replay, quiet=args.quiet)
        if ok:
            print(f'VIOLATION property={doc["property"]} replay={os.path.abspath(args.replay)}')
            return 1
        if not out['violations']:
            print('replay: no violation on this tree (fixed or different tree)')
            return 0
        print('replay: a violation occurred but class or digest differ from the recorded one')
        return 3

    if not args.prop:
        ap.error('property id required')
    prop = args.prop.upper()
    seed = core.master_seed(DEFAULT_SEED)

    if args.digests is not None:
        core.bootstrap()
        mod = driver._load_module(prop)
        runs = [int(x) for x in args.digests.split(',') if x]
        print(json.dumps(driver.digests_clean(mod, seed, args.tier, runs)))
        return 0

    if args.one is not None:
        core.bootstrap()
        mod = driver._load_module(prop)
        case, out = driver.run_one(mod, seed, args.tier, args.one, keep_log=args.log)
        print(json.dumps({'case': case, 'out': out}, indent=1, default=str))
        return 1 if out['violations'] else 0

    runs, cap, st = TIERS[prop][args.tier]
    if args.runs:
        runs = args.runs
    if args.cap:
        cap = args.cap
    return driver.run_batch(prop, args.tier, seed, runs, args.workers, cap, st)


if __name__ == '__main__':
    try:
        rc = main()
    except SystemExit:
        raise
    except BaseException as e:   # anything escaping is a harness error, never exit 0/1
        import traceback
        traceback.print_exc()
        print(f'HARNESS-ERROR {type(e).__name__}: {e}')
        rc = 2
    sys.exit(rc)
