"""C12 - the running balance is the prefix sum (claimed for this clause; three
exact homomorphism facts ride along).

One subject statement per run, `SELECT position, lineno, <1-3 references to
balance>, <fillers> [FROM ...] [WHERE ...]`, with other table scans made to
run *inside* its rows: natural nesting (IN-subqueries), re-entrant executions
through verif_reenter on the same or another connection, with the interfering
scan optionally dying half-way (storage error / cancellation).  Oracle: an
invariant over the returned rows - every balance cell equals the Beancount
inventory sum of the position cells up to it.
"""

import copy

from . import core, sim, stmts, world
from .core import canon, INJECTED

core.bootstrap()

import beanquery  # noqa: E402
from beancount.core import convert, inventory  # noqa: E402

PROP = 'C12'


def decimal_rel():
    import decimal
    return decimal.Decimal('1E-18')

# results that depend on what the process executed earlier violate this property even when every operation
# agrees with its in-process reference (see driver.find_cross_execution_dependence)
CROSS_EXECUTION_IS_VIOLATION = True
RULE = ('one run = one subject balance query over a generated ledger (multi-currency, lots at cost, reductions) with 0-3 '
        'interfering scans placed by the seed between and around its balance references (IN-subqueries, re-entrant '
        'executions on the same/another connection, some dying half-way by injected storage error or cancellation), plus '
        'rider aggregate queries. non-trivial = the subject returned >= 2 rows, references balance, and at least one other '
        'scan ran inside one of its rows; distinct = distinct digest of (ledger, subject, interference plan).')
ASSUMPTIONS = [
    'claimed for the running-balance clause of C12; the sum()/units()/cost() facts ride along as exact riders; the value()/convert() laws are not covered (28th-digit differences through inverted prices make an exact oracle unsound)',
    'case A oracle uses the position cells of the same result (a WHERE/FROM bug cannot raise a C12 alarm); case B aligns returned rows to the all-postings sequence by the scan index delivered by the harness function verif_rowno',
    'Inventory arithmetic (add_position, reduce) is beancount core and trusted',
]
PROBES = ['conditionally_evaluated_reference', 'predecessor_statement', 'predecessor_scan_died', 'long_ledger_over_128_postings', 'ordered_output_resorted', 'same_transaction_object_twice', 'balance_only_as_later_operand', 'aggregate_over_balance_checked', 'equal_consecutive_postings', 'scan_between_balance_refs', 'balance_scan_between_balance_refs', 'nested_scan_died_halfway', 'other_connection_scan',
          'where_consults_balance', 'from_clause_subject', 'lots_reduced_in_selection', 'in_subquery_touching_balance',
          'three_refs', 'nested_result_checked', 'rider_checked']

# the skipped rows are the ones held at cost, so the visible part of the balance must be the commodity held at cost
COND_REFS = ['coalesce(cost_number, number(only("HOOL", balance)))', 'coalesce(cost_number, number(only("VTI", balance)))']
REFS = ['balance', 'units(balance)', 'cost(balance)', 'balance', 'units(balance)', 'cost(balance)', 'only(cost_currency, balance)'] + COND_REFS
FROMS = [None, None, None, 'year = 2020', 'year >= 2020 OPEN ON 2020-02-01', 'CLOSE ON 2020-03-01',
         'date >= 2020-01-10 CLEAR', 'OPEN ON 2020-01-20 CLOSE ON 2020-04-01']
FILTERS = [None, None, 'account ~ "Equity"', 'account ~ "Assets"', 'number > 0', 'currency = "USD"', 'account ~ "Broker|Bank"',
           'number < 0', 'cost_number IS NOT NULL', 'account != "Income:PnL"']
NESTED = [
    ('SELECT position AS pos, verif_rowno(number) AS ln, balance AS b0', True),
    ('SELECT position AS pos, verif_rowno(number) AS ln, balance AS b0, units(balance) AS b1 WHERE number > 0', True),
    ('SELECT position AS pos, verif_rowno(number) AS ln, cost(balance) AS b0 WHERE account ~ "Assets"', True),
    ('JOURNAL "Assets"', True),
    ('SELECT account, number', False),
    ('SELECT account, sum(position) AS s GROUP BY account', False),
]


def generate(rng, tier, run):
    big = tier == 'thorough'
    repeats = rng.random() < 0.3
    ntx = rng.randint(3, 10 if not big else 20)
    if rng.random() < (0.04 if not big else 0.08):
        # occasionally a long ledger: anything sized "large enough for every scan in flight" (a bounded memo,
        # a recycled pool of row contexts) must meet a scan that is larger
        ntx = rng.randint(60, 90)
    ledger = world.gen_ledger(rng, n_txn=ntx, repeats=repeats)
    if repeats and rng.random() < 0.6:
        ledger['nometa'] = True
    if rng.random() < 0.15:
        ledger['dupobj'] = rng.choice([1, 2, 3])
    other = world.gen_ledger(rng, n_txn=rng.randint(2, 5))
    nrefs = rng.choice([1, 2, 2, 2, 3])
    refs = [rng.choice(REFS) for _ in range(nrefs)]
    caseB = rng.random() < 0.3
    frm = None if caseB else rng.choice(FROMS)
    flt = rng.choice(FILTERS)
    nested = {}
    k = 0
    fill = []      # fillers per gap (before ref i)

    def interferer():
        nonlocal k
        r = rng.random()
        if r < 0.45:
            kk = k
            k += 1
            tpl, bal = rng.choice(NESTED if rng.random() < 0.8 else NESTED[4:])
            n = {'stmt': tpl, 'bal': bal, 'conn': rng.choice(['same', 'same', 'other_same_ledger', 'other_ledger']),
                 'at': rng.choice([[0], [1], [0, 1], [2], 'all', [0, 3]])}
            if rng.random() < 0.25:
                n['fault'] = ({'kind': 'storage', 'table': 'postings', 'row': rng.randint(0, 6)})
            nested[str(kk)] = n
            return f'verif_reenter(number, {kk})'
        if r < 0.65:
            return 'account IN (SELECT account FROM #postings WHERE NOT empty(balance))'
        if r < 0.8:
            return 'account IN (SELECT account FROM #postings WHERE number > 0)'
        return rng.choice(['account', 'number', 'date'])

    targets = ['position AS pos', 'verif_rowno(number) AS ln']
    ninter = 0
    for i, r_ in enumerate(refs):
        if rng.random() < (0.75 if i else 0.3):
            targets.append(f'{interferer()} AS f{i}')
            ninter += 1
        targets.append(f'{r_} AS b{i}')
    if rng.random() < 0.3:
        targets.append(f'{interferer()} AS ft')
    conds = []
    cond_where = False
    if caseB:
        pre = rng.random() < 0.4
        if pre:
            conds.append(f'({interferer()}) IS NOT NULL') if rng.random() < 0.5 else conds.append('number IS NOT NULL')
        if flt and rng.random() < 0.5:
            # the condition consults balance only on some rows (AND stops at the first false conjunct): it is
            # still "the sum over all postings scanned so far"
            conds.append(flt)
            flt = None
            cond_where = True
        conds.append('NOT empty(balance)')
        if rng.random() < 0.4:
            kk = k
            k += 1
            tpl, bal = rng.choice(NESTED)
            nested[str(kk)] = {'stmt': tpl, 'bal': bal, 'conn': rng.choice(['same', 'other_same_ledger']),
                               'at': rng.choice([[0], [1], 'all'])}
            conds.append(f'verif_reenter(number, {kk}) IS NOT NULL')
    if flt:
        conds.append(flt)
    if not caseB and rng.random() < 0.2:
        conds.append('account IN (SELECT account FROM #postings WHERE NOT empty(balance))')
    text = 'SELECT ' + ', '.join(targets)
    if frm:
        text += ' FROM ' + frm
    if conds:
        text += ' WHERE ' + ' AND '.join(conds)
    order = rng.choice([None, None, None, 'account', 'number DESC', 'date DESC, account', 'currency, number'])
    if order:
        # the balance is defined in ledger order whatever the output order: the oracle re-sorts the
        # returned rows by their scan index (verif_rowno) before checking
        text += ' ORDER BY ' + order
    # statements executed on the same connection before the subject: abandoned scans (LIMIT), scans that die
    # (cancellation in a later row), the subject itself (re-execution on the same cursor), aggregates over balance
    pre = []
    for _ in range(rng.choice([0, 0, 1, 1, 2])):
        kind = rng.choice(['limit', 'dies', 'same', 'agg', 'plain'])
        if kind == 'limit':
            pre.append({'stmt': f'SELECT account, balance LIMIT {rng.randint(1, 4)}'})
        elif kind == 'dies':
            pre.append({'stmt': 'SELECT verif_fault(balance, 0) AS b, account, balance AS b2',
                        'fault': {'kind': rng.choice(['cancel', 'udf']), 'k': 0, 'n': rng.randint(0, 5)}})
        elif kind == 'same':
            pre.append({'stmt': text, 'same_cursor': True})
        elif kind == 'agg':
            pre.append({'stmt': 'SELECT account, first(balance) AS f, last(balance) AS l, count(balance) AS n, balance GROUP BY account, balance LIMIT 3'
                        if rng.random() < 0.3 else 'SELECT account, last(balance) AS l, count(balance) AS n GROUP BY account'})
        else:
            pre.append({'stmt': 'SELECT date, account, balance WHERE number > 0'})
    return {
        'pre': pre,
        'world': {'ledger': ledger, 'other': other},
        'subject': {'text': text, 'refs': refs, 'caseB': caseB, 'from': frm, 'filter': flt,
                    'where': ' AND '.join(conds) if conds else None, 'order': order,
                    'conditional': bool(cond_where or any(r_ in COND_REFS for r_ in refs)),
                    'real_parse': rng.random() < 0.05},
        'nested': nested,
        'riders': rng.random() < 0.5,
        'aggbal': rng.choice([None, None, 0, 1, 2, 3, 4, 5, 6]),
        'aggfilter': rng.choice(FILTERS),
        'clients': [],
    }


# ---------------------------------------------------------------------------
# the invariant

def same(x, y):
    """Numerically equal (beancount's own equality of inventories / amounts): 79.93 == 79.930.  Decimal
    exponents depend on the order in which numbers were added and are not part of the property."""
    if x is None or y is None:
        return x is None and y is None
    if type(x) is not type(y):
        return False
    return x == y


def wrap(inv, ref, pos=None):
    if ref in COND_REFS:
        # a reference the language evaluates conditionally: the balance of the row is what it is all the same
        if pos is not None and pos.cost is not None:
            return pos.cost.number
        return inv.get_currency_units('HOOL' if 'HOOL' in ref else 'VTI').number
    if ref == 'only(cost_currency, balance)':
        # NULL where the first operand is NULL; the running balance advances on every selected row all the same
        if pos is None or pos.cost is None:
            return None
        return inv.get_currency_units(pos.cost.currency)
    if ref == 'units(balance)':
        return inv.reduce(convert.get_units)
    if ref == 'cost(balance)':
        return inv.reduce(convert.get_cost)
    return inv


def check_prefix(desc, rows, refs, full=None):
    """Case A (full is None): balance cell i == inventory sum of position
    cells 0..i of the same result.  Case B: `full` is the all-postings list of
    positions in scan order; rows carry their scan index (verif_rowno) and the expected value is the
    prefix over all postings.  Returns a list of problems (dicts)."""
    names = [c.name for c in desc]
    ipos, iln = names.index('pos'), names.index('ln')
    ib = [names.index(f'b{i}') for i in range(len(refs))]
    problems = []
    run = inventory.Inventory()
    j = 0
    for ri, row in enumerate(rows):
        if full is None:
            run.add_position(row[ipos])
        else:
            # row[iln] is the index of the posting in scan order (harness function verif_rowno)
            k = row[iln]
            if not isinstance(k, int) or k < j or k >= len(full) or canon(full[k]) != canon(row[ipos]):
                return [{'kind': 'unaligned', 'row': ri}]
            while j <= k:
                run.add_position(full[j])
                j += 1
        for bi, ref in zip(ib, refs):
            expv = wrap(run, ref, row[ipos])
            if not same(row[bi], expv):
                problems.append({'kind': 'balance-not-prefix-sum', 'row': ri, 'ref': ref, 'expected': canon(expv),
                                 'observed': canon(row[bi])})
                if len(problems) >= 3:
                    return problems
    return problems


AGGBAL = [
    'SELECT account, first(balance) AS f0, sum(balance) AS s0, count(position) AS n0',
    'SELECT account, sum(balance) AS s0, sum(balance) AS s1, last(balance) AS l0',
    'SELECT account, units(sum(balance)) AS u0, first(balance) AS f0, last(balance) AS l0',
    'SELECT account, last(balance) AS l0, sum(balance) AS s0, first(balance) AS f0, sum(balance) AS s1',
    # balance consulted by one aggregate only: every selected posting must still enter the running balance
    'SELECT account, first(balance) AS f0, count(position) AS n0',
    'SELECT account, count(position) AS n0, first(balance) AS f0, first(balance) AS f1',
    'SELECT account, last(balance) AS l0',
]


def close_inventories(x, y, rel=decimal_rel()):
    """Equal up to decimal rounding noise (convert()/value() through prices)."""
    def as_map(inv):
        m = {}
        for p in inv.get_positions():
            key = (p.units.currency, canon(p.cost))
            m[key] = m.get(key, 0) + p.units.number
        return {k: v for k, v in m.items() if v != 0}
    a, b = as_map(x), as_map(y)
    if set(a) != set(b):
        # tiny residues may survive in one side only
        for k in set(a) ^ set(b):
            if abs(a.get(k, 0) + b.get(k, 0)) > rel:
                return False
    for k in set(a) & set(b):
        if abs(a[k] - b[k]) > rel * max(1, abs(a[k]), abs(b[k])):
            return False
    return True


def run_query(conn, arg):
    cur = conn.cursor()
    cur.execute(arg)
    return cur.description, cur.fetchall()


def execute(case, keep_log=False):
    W = case['world']
    sub = case['subject']
    log = core.EventLog(keep=keep_log)
    S = sim.OpSim(log)
    world.set_current(S)
    viols = []
    stats = {'ops': 0}
    try:
        conn = world.make_connection(W['ledger'], (), copy=0)
        conns = {'same': conn}

        def get_conn(kind):
            if kind not in conns:
                conns[kind] = world.make_connection(W['ledger'] if kind == 'other_same_ledger' else W['other'], (),
                                                    copy=2 if kind == 'other_same_ledger' else 0)
            return conns[kind]

        def violation(oracle, where, detail, sigx=''):
            viols.append({'oracle': oracle, 'where': where, 'detail': detail, 'subject': sub['text'],
                          'sig': f'C12:{oracle}{sigx}'})

        calls = {}
        in_subject_row = [False]
        scans_before = [0]

        def make_reenter(kk, n):
            def fn():
                c_ = calls.get(kk, 0)
                calls[kk] = c_ + 1
                if n['at'] != 'all' and c_ not in n['at']:
                    return
                if S.reenter_depth > 1:
                    return
                stats['ops'] += 1
                S.probes['scan_between_balance_refs'] += 1
                if n['bal']:
                    S.probes['balance_scan_between_balance_refs'] += 1
                if n['conn'] != 'same':
                    S.probes['other_connection_scan'] += 1
                nc = get_conn(n['conn'])
                if n.get('fault'):
                    S.arm(dict(n['fault'], depth=S.reenter_depth))
                try:
                    d, r = run_query(nc, stmts.for_execute(n['stmt'], False))
                except INJECTED as e:
                    S.probes['nested_scan_died_halfway'] += 1
                    log.add('nested', kk, c_, 'died', core.exc_class(e))
                    return
                except core.HarnessError:
                    raise
                except Exception as e:
                    log.add('nested', kk, c_, 'err', core.exc_class(e))
                    violation('nested-failed', f'nested{kk}@{c_}', {'stmt': n['stmt'], 'raises': f'{core.exc_class(e)}: {e}'})
                    return
                finally:
                    if n.get('fault'):
                        S.armed = None
                log.add('nested', kk, c_, 'ok', core.digest(core.canon_rows(r))[:12])
                if n['stmt'].startswith('SELECT position AS pos'):  # nested statements have no balance-consulting condition: case A
                    nrefs = [x for x in ('balance', 'units(balance)', 'cost(balance)')
                             if f'{x} AS b' in n['stmt']]
                    order = sorted(nrefs, key=lambda x: n['stmt'].index(f'{x} AS b'))
                    S.probes['nested_result_checked'] += 1
                    for p in check_prefix(d, r, order):
                        violation(p['kind'], f'nested{kk}@{c_}', dict(p, stmt=n['stmt']), ':nested')
                        break
            return fn

        for kk, n in (case.get('nested') or {}).items():
            S.reenter_plan[int(kk)] = make_reenter(int(kk), n)

        # predecessors on the same connection (their own results are not judged here)
        subject_cursor = conn.cursor()
        for pr in case.get('pre') or []:
            stats['ops'] += 1
            S.probes['predecessor_statement'] += 1
            if pr.get('fault'):
                S.arm(dict(pr['fault']))
            try:
                cur_ = subject_cursor if pr.get('same_cursor') else conn.cursor()
                cur_.execute(stmts.for_execute(pr['stmt'], False))
                cur_.fetchall()
                log.add('pre', pr['stmt'][:40], 'ok')
            except core.HarnessError:
                raise
            except BaseException as e:
                if pr.get('fault'):
                    S.probes['predecessor_scan_died'] += 1
                log.add('pre', pr['stmt'][:40], 'err', core.exc_class(e))
            finally:
                S.armed = None
        # the subject
        stats['ops'] += 1
        arg = stmts.for_execute(sub['text'], sub.get('real_parse', False))
        try:
            subject_cursor.execute(arg)
            desc, rows = subject_cursor.description, subject_cursor.fetchall()
        except core.HarnessError:
            raise
        except BaseException as e:
            log.add('subject', 'err', core.exc_class(e))
            if isinstance(e, INJECTED):
                raise core.HarnessError(f'injected fault escaped into the subject: {e!r}')
            violation('subject-failed', 'subject', {'raises': f'{core.exc_class(e)}: {e}'})
            desc = rows = None
        if rows is not None:
            log.add('subject', 'ok', len(rows), core.digest(core.canon_rows(rows))[:12])
            if sub['caseB']:
                S.probes['where_consults_balance'] += 1
            if sub.get('from'):
                S.probes['from_clause_subject'] += 1
            if len(sub['refs']) >= 3:
                S.probes['three_refs'] += 1
            if sub.get('conditional'):
                S.probes['conditionally_evaluated_reference'] += 1
            if len(W['ledger']['dirs']) >= 60:
                S.probes['long_ledger_over_128_postings'] += 1
            if W['ledger'].get('dupobj'):
                S.probes['same_transaction_object_twice'] += 1
            if all(r_.startswith('only(') for r_ in sub['refs']):
                S.probes['balance_only_as_later_operand'] += 1
            if 'NOT empty(balance))' in sub['text']:
                S.probes['in_subquery_touching_balance'] += 1
            names = [c.name for c in desc]
            if sub.get('order'):
                S.probes['ordered_output_resorted'] += 1
                rows = sorted(rows, key=lambda r_: r_[names.index('ln')])
            if any(r[names.index('pos')].units.number < 0 and r[names.index('pos')].cost is not None for r in rows):
                S.probes['lots_reduced_in_selection'] += 1
            if W['ledger'].get('nometa') and any(canon(rows[i][names.index('pos')]) == canon(rows[i + 1][names.index('pos')])
                                                 for i in range(len(rows) - 1)):
                S.probes['equal_consecutive_postings'] += 1
            full = None
            if sub['caseB']:
                with world.reference_mode():
                    rc = world.make_connection(W['ledger'], (), copy=1)
                    fd, fr = run_query(rc, stmts.fresh_ast('SELECT position AS pos'))
                full = [r[0] for r in fr]
            probs = check_prefix(desc, rows, sub['refs'], full)
            for p in probs[:1]:
                if p['kind'] == 'unaligned':
                    stats['unaligned'] = 1
                else:
                    violation(p['kind'], 'subject', p, (':caseB' if sub['caseB'] else ':caseA') +
                              (':conditional-reference' if sub.get('conditional') else ''))
            # last balance == sum(position) of the same selection (case A)
            # (Until fix 'subquery table leak' a subquery naming a table replaced the FROM-transformed table of the
            # enclosing query at compile time; the companion - the same selection without the subquery targets -
            # exposes exactly that, see DESIGN.md 8.3 F18.)
            if not sub['caseB'] and rows and not probs:
                comp = 'SELECT sum(position) AS s'
                if sub.get('from'):
                    comp += ' FROM ' + sub['from']
                where = sub.get('where')
                if where:
                    comp += ' WHERE ' + where
                with world.reference_mode():
                    rc = world.make_connection(W['ledger'], (), copy=1)
                    try:
                        cd, cr = run_query(rc, stmts.fresh_ast(comp))
                    except Exception as e:
                        cr = None
                        stats['companion_failed'] = 1
                if cr is not None:
                    i0 = names.index('b0')
                    expv = wrap(cr[0][0], sub['refs'][0], rows[-1][names.index('pos')])
                    if not same(rows[-1][i0], expv):
                        violation('last-balance-not-sum', 'subject', {'expected': canon(expv), 'observed': canon(rows[-1][i0]),
                                                                      'companion': comp})
            stats['nontrivial'] = bool(len(rows) >= 2 and (S.probes['scan_between_balance_refs'] or S.probes['nested_scans']))
        # riders: homomorphism facts, evaluated in the same (interfered) world
        if case.get('riders'):
            stats['ops'] += 4
            try:
                _, tot = run_query(conn, stmts.for_execute('SELECT sum(position) AS s', False))
                _, grp = run_query(conn, stmts.for_execute('SELECT account, sum(position) AS s GROUP BY account', False))
                _, uc = run_query(conn, stmts.for_execute(
                    'SELECT units(sum(position)) AS a, sum(units(position)) AS b, cost(sum(position)) AS c, sum(cost(position)) AS d', False))
                _, cv = run_query(conn, stmts.for_execute(
                    'SELECT convert(sum(position), "USD") AS a, sum(convert(position, "USD")) AS b, '
                    'convert(sum(position), "EUR") AS c, sum(convert(position, "EUR")) AS d, '
                    'value(sum(position)) AS e, sum(value(position)) AS f, '
                    'convert(sum(position), "CAD") AS g, sum(convert(position, "CAD")) AS h', False))
            except core.HarnessError:
                raise
            except Exception as e:
                violation('rider-failed', 'riders', {'raises': f'{core.exc_class(e)}: {e}'})
            else:
                S.probes['rider_checked'] += 1
                acc = inventory.Inventory()
                for _, s_ in grp:
                    acc.add_inventory(s_)
                if not same(acc, tot[0][0]):
                    violation('rider-partition-sum', 'riders', {'expected': canon(tot[0][0]), 'observed': canon(acc)})
                a, b, c_, d = uc[0]
                if not same(a, b):
                    violation('rider-units-homomorphism', 'riders', {'units(sum)': canon(a), 'sum(units)': canon(b)})
                if not same(c_, d):
                    violation('rider-cost-homomorphism', 'riders', {'cost(sum)': canon(c_), 'sum(cost)': canon(d)})
                # convert()/value(): equal up to decimal rounding (28 digits) - tolerant comparison
                for name, x, y in (('convert-USD', cv[0][0], cv[0][1]), ('convert-EUR', cv[0][2], cv[0][3]),
                                   ('value', cv[0][4], cv[0][5]), ('convert-CAD', cv[0][6], cv[0][7])):
                    if not close_inventories(x, y):
                        violation('rider-' + name + '-homomorphism', 'riders', {'f(sum)': canon(x), 'sum(f)': canon(y)})
                log.add('riders', core.digest([canon(tot[0][0]), canon(a), canon(c_)])[:12])
        # rider: aggregates over the running balance (sum/first/last of an inventory column whose cells the
        # balance column hands out once per row to every reference)
        if case.get('aggbal') is not None:
            stats['ops'] += 1
            q = AGGBAL[case['aggbal']]
            flt = case.get('aggfilter')
            text = q + (f' WHERE {flt}' if flt else '') + ' GROUP BY account'
            comp = 'SELECT account, position' + (f' WHERE {flt}' if flt else '')
            try:
                ad, ar = run_query(conn, stmts.for_execute(text, False))
                with world.reference_mode():
                    rc = world.make_connection(W['ledger'], (), copy=1)
                    _, cr = run_query(rc, stmts.fresh_ast(comp))
            except core.HarnessError:
                raise
            except Exception as e:
                violation('aggbal-failed', 'aggbal', {'stmt': text, 'raises': f'{core.exc_class(e)}: {e}'})
            else:
                S.probes['aggregate_over_balance_checked'] += 1
                run = inventory.Inventory()
                groups = {}
                for acct, pos in cr:
                    run.add_position(pos)
                    g = groups.setdefault(acct, {'first': None, 'last': None, 'sum': inventory.Inventory(), 'n': 0})
                    snap = copy.copy(run)
                    if g['first'] is None:
                        g['first'] = snap
                    g['last'] = snap
                    g['sum'].add_inventory(snap)
                    g['n'] += 1
                names = [c.name for c in ad]
                for row in ar:
                    g = groups.get(row[0])
                    if g is None:
                        violation('aggbal-unknown-group', 'aggbal', {'stmt': text, 'group': row[0]})
                        break
                    bad = None
                    for nm, cell in zip(names[1:], row[1:]):
                        kind = nm.rstrip('0123456789')
                        exp = {'f': g['first'], 'l': g['last'], 's': g['sum'], 'u': g['sum'].reduce(convert.get_units),
                               'n': g['n']}[kind]
                        if not (cell == exp if kind == 'n' else same(cell, exp)):
                            bad = {'stmt': text, 'group': row[0], 'column': nm, 'expected': canon(exp), 'observed': canon(cell),
                                   'rows_in_group': g['n']}
                            break
                    if bad:
                        violation('aggregate-over-balance', 'aggbal', bad)
                        break
                log.add('aggbal', text, core.digest(core.canon_rows(ar))[:12])
    finally:
        world.set_current(None)
    stats.setdefault('nontrivial', False)
    stats['steps'] = S.steps
    stats['probes'] = dict(S.probes)
    stats['faults_fired'] = dict(S.fired)
    shape = core.digest([world.render_ledger(W['ledger']), sub['text'], case.get('nested')])
    out = {'digest': log.digest(), 'shape_digest': shape, 'violations': viols, 'stats': stats}
    if keep_log:
        out['log'] = log.events
    return out


def simplify(case):
    W = case['world']
    n = len(W['ledger']['dirs'])
    if n > 1:
        for cut in (n // 2, n - 1):
            c = copy.deepcopy(case)
            c['world']['ledger']['dirs'] = W['ledger']['dirs'][:cut]
            yield c
        for i in range(min(n, 12)):
            c = copy.deepcopy(case)
            del c['world']['ledger']['dirs'][i]
            yield c
    for kk in list((case.get('nested') or {})):
        c = copy.deepcopy(case)
        c['nested'][kk]['at'] = []
        yield c
        if case['nested'][kk].get('fault'):
            c = copy.deepcopy(case)
            del c['nested'][kk]['fault']
            yield c
        if case['nested'][kk]['at'] == 'all' or len(case['nested'][kk]['at']) > 1:
            c = copy.deepcopy(case)
            c['nested'][kk]['at'] = [0]
            yield c
    if case.get('riders'):
        c = copy.deepcopy(case)
        c['riders'] = False
        yield c
    for i in range(len(case.get('pre') or [])):
        c = copy.deepcopy(case)
        del c['pre'][i]
        yield c


def sample(case, out):
    return {'subject': case['subject']['text'], 'nested': case.get('nested'),
            'ledger_directives': len(case['world']['ledger']['dirs']), 'violations': len(out['violations'])}
