"""C20 - thread isolation: concurrent queries give the same results as serial.

2-3 simulated caller threads (real threads under the baton-passing scheduler
of sched.py), each executing 1-3 statements on a shared connection / one
connection each over the same ledger / over different ledgers.  Oracle: every
statement's outcome under the schedule equals its outcome in the serial
pre-pass (alone on a fresh connection).
"""

import copy

from . import core, sched, stmts, world
from . import c09
from .core import canon_rows

core.bootstrap()

import beanquery  # noqa: E402

PROP = 'C20'
RULE = ('one run = 2-3 real threads under a seeded baton-passing scheduler (uniform random p / PCT d / round-robin q, one '
        'strategy per run), each executing 1-3 statements; yield points are row boundaries of the wrapped tables, '
        'verif_yield sub-expression sites planted in the statements, and (thorough) every Python line of beanquery '
        'outside parser/. non-trivial = at least one context switch happened while two threads both had a statement in '
        'flight; distinct = distinct digest of (statements, parameters, topology, decision list).')
ASSUMPTIONS = [
    'oracle: the same statement alone on a fresh connection over an independently loaded copy of the same ledger (serial pre-pass)',
    'threads share the module and connections, never cursors or parsed statements (DB-API level 2)',
    'an injected fault relaxes the oracle for the faulted statement only',
    'pre-emption happens at harness sites (quick) or Python line boundaries inside beanquery (thorough); C code is atomic under the GIL',
]
PROBES = ['same_text_both_threads_shared_connection', 'switch_after_finalize_same_statement_other_thread', 'switch_inside_compilation', 'switch_between_balance_refs', 'switch_between_balance_refs_other_balance_inflight', 'two_aggregates_interleaved',
          'shared_connection_overlap', 'fault_in_one_thread_others_running', 'subquery_scan_interleaved',
          'three_threads_all_inflight', 'from_clause_overlap']

T0_COLS = c09.T0_COLS

# (template, slot types, tags).  Sites 100+ are "between two balance references of one row".
POOL = [
    ('SELECT balance AS b1, verif_yield(account, 101) AS y, balance AS b2', [], ('bal2',)),
    ('SELECT units(balance) AS u, verif_yield(number, 102) AS y, cost(balance) AS c WHERE account ~ "Assets"', [], ('bal2',)),
    ('SELECT account, balance AS b WHERE NOT empty(balance) AND verif_yield(number, 103) > {0}', ['dec'], ('bal2',)),
    ('SELECT account, balance AS b1, verif_yield(position, 104) AS p, balance AS b2, balance AS b3 FROM year >= {0}', ['year'], ('bal2', 'from')),
    ('SELECT date, account, position, balance AS b', [], ('bal1',)),
    ('SELECT account, verif_yield(balance, 5) AS b WHERE account ~ {0}', ['acct'], ('bal1',)),
    ('JOURNAL "Assets"', [], ('bal1',)),
    ('SELECT account, sum(verif_yield(position, 6)) AS s, count(verif_yield(number, 7)) AS n GROUP BY account ORDER BY account', [], ('agg',)),
    ('SELECT account, first(date) AS f, last(verif_yield(date, 8)) AS l, min(number) AS mn, max(number) AS mx '
     'GROUP BY account HAVING count(verif_yield(number, 9)) > {0}', ['pint'], ('agg',)),
    ('SELECT e, count(verif_yield(a, 10)) AS n, sum(b) AS s FROM #t0 GROUP BY e', [], ('agg',)),
    ('SELECT verif_yield(a, 11) AS a, b FROM #t0 WHERE verif_yield(a, 12) IN (SELECT verif_yield(a, 13) FROM #t0 WHERE a < {0})', ['int'], ('subq',)),
    ('SELECT x, verif_yield(x, 14) + {0} AS y FROM (SELECT verif_yield(a, 15) - {1} AS x FROM #t0 WHERE a > {2}) WHERE x < {3}',
     ['int', 'int', 'int', 'int'], ('subq',)),
    ('SELECT account, position WHERE account IN (SELECT verif_yield(account, 16) FROM #postings WHERE NOT empty(balance)) '
     'AND verif_yield(number, 17) > 0', [], ('subq', 'bal1')),
    ('SELECT DISTINCT verif_yield(e, 18) AS e FROM #t0', [], ()),
    ('SELECT a, verif_yield(c, 19) AS c FROM #t0 ORDER BY verif_yield(a, 20) % {0}, a DESC LIMIT 5', ['pint'], ()),
    ('SELECT account, currency, sum(verif_yield(number, 21)) AS n GROUP BY account, currency PIVOT BY account, currency', [], ('agg',)),
    ('BALANCES', [], ('agg',)),
    ('SELECT account, position FROM verif_yield(year, 22) = 2020 OPEN ON 2020-02-01 CLOSE ON 2020-04-01 CLEAR', [], ('from',)),
    ('SELECT account, sum(position) AS s FROM CLOSE ON 2020-02-15 GROUP BY account', [], ('from', 'agg')),
    ('SELECT date, verif_yield(narration, 23) AS n FROM #transactions', [], ()),
    ('SELECT verif_yield(type, 24) AS t, date FROM #entries', [], ()),
    ('SELECT verif_fault(a, 0) AS f, verif_yield(b, 25) AS b FROM #t0', [], ('fault',)),
    ('SELECT verif_fault(position, 0) AS p, account, balance AS b', [], ('fault', 'bal1')),
    ('SELECT {0} - verif_yield(a, 26) AS x, {1} AS s FROM #t0 WHERE {2} - a > 0', ['int', 'str', 'int'], ()),
    ('SELECT a, a - {0} AS x FROM #t0 WHERE a > {1}', ['int', 'int'], ()),
    ('SELECT nosuch FROM #t0', [], ('bad',)),
    # casts of user metadata (explicit and implicit), DISTINCT / ORDER BY / PIVOT post-processing passes
    ('SELECT account, decimal(any_meta("qty")) AS q, verif_yield(number, 80) AS n', [], ('cast',)),
    ('SELECT account, entry_meta("qty") AS raw WHERE entry_meta("qty") > {0}', ['int'], ('cast',)),
    ('SELECT account, int(any_meta("qty")) AS i, str(number) AS s, date(year, month, day) AS d WHERE verif_yield(number, 81) < 0', [], ('cast',)),
    ('SELECT DISTINCT account', [], ('distinct',)),
    ('SELECT DISTINCT currency, cost_currency ORDER BY 1', [], ('distinct',)),
    ('SELECT DISTINCT account, year WHERE number > {0} LIMIT 5', ['dec'], ('distinct',)),
    ('SELECT DISTINCT payee, narration ORDER BY payee DESC, narration', [], ('distinct',)),
    # a yield site between the operand evaluations of functions with several operands
    ('SELECT account, root(account, verif_yield(2, 65)) AS r, maxwidth(narration, verif_yield(6, 66)) AS w', [], ('multiop',)),
    ('SELECT account, grep("Bank|Food", verif_yield(account, 67)) AS g, subst("a", "A", verif_yield(account, 68)) AS s', [], ('multiop',)),
    ('SELECT date_add(date, verif_yield(1, 69)) AS d, round(number, verif_yield(1, 70)) AS r, safediv(number, verif_yield(number, 71)) AS q, '
     'account', [], ('multiop',)),
    ('SELECT root(account, verif_yield(1, 72)) AS r, sum(round(number, verif_yield(1, 73))) AS s GROUP BY r', [], ('multiop', 'agg')),
    ('SELECT a, substr(c, verif_yield(0, 74), verif_yield(2, 75)) AS s, date_add(d, verif_yield(a, 76)) AS dd FROM #t0', [], ('multiop',)),
    # rewritten statements with a yield site in the middle of their compilation
    ('BALANCES FROM year >= verif_cyield(2020, 46) WHERE account ~ "Assets"', [], ('compile', 'agg', 'cooked')),
    ('BALANCES WHERE account ~ "Expenses|Income"', [], ('agg', 'cooked')),
    ('BALANCES AT units FROM year >= verif_cyield(2019, 47)', [], ('compile', 'agg', 'cooked')),
    ('JOURNAL "Assets" FROM year >= verif_cyield(2020, 48)', [], ('compile', 'bal1', 'cooked')),
    ('JOURNAL "Expenses" AT units', [], ('bal1', 'cooked')),
    # wide rows: every per-posting column evaluated by two scans that sit on the same row number
    ('SELECT date, flag, payee, narration, tags, links, account, other_accounts, number, currency, cost_number, cost_currency, '
     'cost_date, position, price, weight, verif_yield(lineno, 54) AS l', [], ('wide',)),
    ('SELECT account, weight, other_accounts, verif_yield(number, 55) AS n, weight AS w2 WHERE verif_yield(number, 56) != 0', [], ('wide',)),
    ('SELECT id, type, date, verif_yield(year, 57) AS y, month, day, flag, payee, narration, description, tags, links FROM #entries', [], ('wide',)),
    # account-related functions and tables (per-connection derived data: open/close index, account types)
    ('SELECT account, open_date(account) AS o, close_date(account) AS c WHERE number > {0}', ['dec'], ('acct',)),
    ('SELECT account, possign(number, account) AS p, verif_yield(number, 50) AS n', [], ('acct',)),
    # (has_account() is left out on purpose: it runs any() over a *set* of account names, so the number of Python
    # lines it executes depends on the interpreter's hash seed - results do not, but line-level step counts would)
    ('SELECT account, account_sortkey(account) AS k, open_date(account) AS o WHERE verif_yield(number, 51) != 0', [], ('acct',)),
    ('SELECT account, verif_yield(open.date, 52) AS d FROM #accounts', [], ('acct',)),
    ('SELECT account, sum(position) AS s FROM OPEN ON 2020-01-15 CLOSE ON 2020-03-01 GROUP BY account', [], ('from', 'agg')),
    ('SELECT account, sum(position) AS s FROM OPEN ON 2020-02-01 GROUP BY account', [], ('from', 'agg')),
    ('SELECT date, account, position FROM CLOSE ON 2020-03-01 CLEAR', [], ('from',)),
    # yield sites *after* a group has been finalised, before its aggregate values are read
    ('SELECT account, verif_yield(sum(number), 30) AS s, count(number) AS n GROUP BY account', [], ('agg', 'postfinal')),
    ('SELECT account, verif_yield(count(number), 31) AS n, sum(position) AS s, first(date) AS f, last(narration) AS l GROUP BY account',
     [], ('agg', 'postfinal')),
    ('SELECT e, verif_yield(count(a), 32) AS n, sum(b) AS s FROM #t0 GROUP BY e HAVING verif_yield(count(a), 33) > {0}', ['int'], ('agg', 'postfinal')),
    # yield sites in the middle of a compilation (pure function of constants: called by constant folding)
    ('SELECT verif_cyield({0}, 40) AS g, {1} AS v, a FROM #t0 WHERE a > verif_cyield({2}, 41)', ['int', 'str', 'int'], ('compile',)),
    ('SELECT account, {0} AS v, number FROM verif_cyield(year, 42) >= {1} WHERE verif_cyield({2}, 43) < number', ['str', 'year', 'dec'],
     ('compile', 'from')),
    ('SELECT verif_cyield({0}, 44) AS k, x FROM (SELECT a AS x FROM #t0 WHERE a > verif_cyield({1}, 45)) WHERE x < {2}', ['int', 'int', 'int'],
     ('compile', 'subq')),
]


def generate(rng, tier, run):
    big = tier == 'thorough'
    nthreads = rng.choice([2, 2, 2, 3])
    topology = rng.choice(['shared', 'shared', 'per_thread', 'diff_ledger'])
    ledgers = [world.gen_ledger(rng, n_txn=rng.randint(2, 6 if not big else 10))]
    if topology == 'diff_ledger':
        for _ in range(nthreads - 1):
            ledgers.append(world.gen_ledger(rng, n_txn=rng.randint(2, 6)))
    t0 = world.gen_table(rng, 't0', nrows=rng.randint(1, 7), cols=T0_COLS, nullable=0.1)
    # swarm: weight statement families per run
    fam = {'cast': rng.choice([0.5, 1, 3]), 'distinct': rng.choice([0.5, 1, 3]), 'multiop': rng.choice([0.5, 1, 3]), 'wide': rng.choice([0.5, 1, 3]), 'cooked': rng.choice([0.5, 1, 3]), 'acct': rng.choice([0.3, 1, 3]), 'postfinal': rng.choice([0.5, 2, 4]), 'compile': rng.choice([0.5, 1, 3]), 'bal2': rng.choice([0.5, 2, 4]), 'bal1': rng.choice([0.5, 1, 3]), 'agg': rng.choice([0.5, 1, 2]),
           'subq': rng.choice([0.3, 1, 2]), 'from': rng.choice([0.3, 1]), 'fault': 0.6, 'bad': 0.2}

    def weight(tags):
        w = 1.0
        for t in tags:
            w *= fam.get(t, 1.0)
        return w
    weights = [weight(t) for _, _, t in POOL]
    idx = sorted(set(rng.choices(range(len(POOL)), weights, k=rng.randint(3, 6))))
    pool = []
    for i in idx:
        tpl, types_, tags = POOL[i]
        pool.append({'t': tpl, 'types': list(types_), 'tags': list(tags), 'names': [f'p{k}' for k in range(len(types_))]})
    faults_on = rng.random() < 0.3
    clients = []
    faulted = False
    for c in range(nthreads):
        ops = []
        for _ in range(rng.choice([1, 1, 2, 2, 3])):
            i = rng.randrange(len(pool))
            mode = rng.choice(['pos', 'named', 'lit']) if pool[i]['types'] else 'lit'
            op = {'op': 'exec', 'stmt': i, 'mode': mode, 'vals': [world.enc(v) for v in c09.gen_vals(rng, pool[i])],
                  'real_parse': rng.random() < 0.03}
            if faults_on and not faulted and rng.random() < 0.4:
                faulted = True
                if 'fault' in pool[i]['tags']:
                    op['fault'] = {'kind': rng.choice(['udf', 'cancel']), 'k': 0, 'n': rng.randint(0, 4)}
                else:
                    op['fault'] = {'kind': 'storage', 'table': rng.choice(['t0', 'postings']), 'row': rng.randint(0, 5)}
            ops.append(op)
        clients.append({'ops': ops})
    # swarm class "same text": every thread sends the same parameterless statement as text over one
    # shared connection (what a statement cache keyed on text would see)
    if rng.random() < 0.3:
        cand = [i for i, s_ in enumerate(pool) if not s_['types'] and 'bad' not in s_['tags']]
        if cand:
            i = rng.choice(cand)
            for c in clients:
                for op in c['ops']:
                    if rng.random() < 0.8:
                        op.update({'stmt': i, 'mode': 'lit', 'vals': [], 'real_parse': True})
                        op.pop('fault', None)
            if rng.random() < 0.8:
                topology = 'shared'
                ledgers = ledgers[:1]
    elif rng.random() < 0.13:
        # swarm class "rewritten statements": every thread runs BALANCES / JOURNAL statements (compiled through
        # a shared translation template) with different clauses, some with a yield site inside their compilation
        cand = [i for i, s_ in enumerate(POOL) if 'cooked' in s_[2]]
        idxs = []
        for i in rng.sample(cand, rng.randint(2, len(cand))):
            tpl, types_, tags = POOL[i]
            pool.append({'t': tpl, 'types': [], 'tags': list(tags), 'names': []})
            idxs.append(len(pool) - 1)
        for c in clients:
            for op in c['ops']:
                op.update({'stmt': rng.choice(idxs), 'mode': 'lit', 'vals': [], 'real_parse': rng.random() < 0.3})
                op.pop('fault', None)
    elif rng.random() < 0.18:
        # swarm class "one family": every thread runs statements of one family (two threads inside the same
        # helper, cast, overload, post-processing pass or lazily built index at the same time)
        famtag = rng.choice(['cast', 'distinct', 'acct', 'wide', 'multiop', 'postfinal', 'subq', 'agg'])
        cand = [i for i, s_ in enumerate(POOL) if famtag in s_[2]]
        idxs = []
        for i in rng.sample(cand, min(len(cand), rng.randint(2, 4))):
            tpl, types_, tags = POOL[i]
            pool.append({'t': tpl, 'types': list(types_), 'tags': list(tags), 'names': [f'p{k}' for k in range(len(types_))]})
            idxs.append(len(pool) - 1)
        for c in clients:
            for op in c['ops']:
                j = rng.choice(idxs)
                op.update({'stmt': j, 'mode': rng.choice(['pos', 'named', 'lit']) if pool[j]['types'] else 'lit',
                           'vals': [world.enc(v) for v in c09.gen_vals(rng, pool[j])], 'real_parse': False})
                op.pop('fault', None)
    elif rng.random() < 0.2:
        # swarm class "FROM family": every thread runs FROM-qualified statements (OPEN/CLOSE/CLEAR in
        # different combinations) over one shared connection, i.e. over copies of one registered table
        cand = [i for i, s_ in enumerate(POOL) if 'from' in s_[2] and not s_[1]]
        idxs = []
        for i in rng.sample(cand, min(len(cand), rng.randint(2, 4))):
            tpl, types_, tags = POOL[i]
            pool.append({'t': tpl, 'types': [], 'tags': list(tags), 'names': []})
            idxs.append(len(pool) - 1)
        for c in clients:
            for op in c['ops']:
                op.update({'stmt': rng.choice(idxs), 'mode': 'lit', 'vals': [], 'real_parse': False})
                op.pop('fault', None)
        topology = 'shared'
        ledgers = ledgers[:1]
    else:
        for c in clients:
            for op in c['ops']:
                if rng.random() < 0.15:
                    op['real_parse'] = True
    # a share of the statements goes through Connection.execute() (the implicit cursor), with a scheduling
    # point between execute and fetch: whatever the connection keeps for it is shared by the threads
    for c in clients:
        for op in c['ops']:
            if rng.random() < 0.25:
                op['via'] = 'conn_execute'
    # line pre-emption in most thorough runs and in a share of the quick runs
    trace = rng.random() < (0.7 if big else 0.12)
    if trace and big and rng.random() < 0.06:
        # rare and expensive: line pre-emption inside the TatSu parser as well, every statement sent as text
        trace = 'parser'
        for c in clients:
            c['ops'] = c['ops'][:1]
            for op in c['ops']:
                op['real_parse'] = True
    est = sum(len(c['ops']) for c in clients) * (len(t0['rows']) + 14) * (40 if trace else 3)
    return {
        'world': {'ledgers': ledgers, 'tables': [t0], 'stmts': pool, 'topology': topology},
        'clients': clients,
        'sched': {'strategy': sched.gen_strategy(rng, tier, est), 'seed': rng.getrandbits(48)},
        'trace': trace,
    }


# ---------------------------------------------------------------------------

def outcome(conn, arg, params, via=None, between=None):
    try:
        if via == 'conn_execute':
            cur = conn.execute(arg, params)
            if between is not None:
                between()
        else:
            cur = conn.cursor()
            cur.execute(arg, params)
        desc = cur.description
        rows = cur.fetchall()
        return ('ok', [[c.name, core.type_name(c.datatype)] for c in desc], canon_rows(rows))
    except core.HarnessError:
        raise
    except BaseException as e:
        return ('err', core.exc_class(e), None)


class Sim(sched.ThreadSim):
    def __init__(self, *a, **kw):
        super().__init__(*a, **kw)
        self.inflight = [None] * self.n      # tags of the statement each thread is executing
        self.stmt_of = [None] * self.n       # text of that statement
        self.as_text = [False] * self.n      # handed to execute as a str (real parse inside beanquery)
        self.overlap = False
        self.conn_of = [None] * self.n

    def on_switch(self, me, to, site):
        mine = self.inflight[me]
        other_in = [t for t in range(self.n) if t != me and self.inflight[t] is not None]
        if mine is not None and other_in:
            self.overlap = True
            if len(other_in) == self.n - 1 and self.n == 3:
                self.probes['three_threads_all_inflight'] += 1
            if any(self.conn_of[t] is self.conn_of[me] for t in other_in):
                self.probes['shared_connection_overlap'] += 1
                if any(self.conn_of[t] is self.conn_of[me] and self.stmt_of[t] == self.stmt_of[me] and self.as_text[t] and self.as_text[me]
                       for t in other_in):
                    self.probes['same_text_both_threads_shared_connection'] += 1
            if 'agg' in mine and any('agg' in self.inflight[t] for t in other_in):
                self.probes['two_aggregates_interleaved'] += 1
            if 'subq' in mine:
                self.probes['subquery_scan_interleaved'] += 1
            if 'from' in mine and any('from' in self.inflight[t] for t in other_in):
                self.probes['from_clause_overlap'] += 1
            if self.armed[me] is not None or any(self.armed[t] is not None for t in other_in):
                self.probes['fault_in_one_thread_others_running'] += 1
        if site[0] == 'expr' and isinstance(site[1], int) and 30 <= site[1] <= 33 and mine is not None \
                and any(self.stmt_of[t] is not None and self.stmt_of[t] == self.stmt_of[me] and self.conn_of[t] is self.conn_of[me]
                        for t in other_in):
            self.probes['switch_after_finalize_same_statement_other_thread'] += 1
        if site[0] == 'expr' and isinstance(site[1], int) and 40 <= site[1] <= 48:
            self.probes['switch_inside_compilation'] += 1
        if site[0] == 'expr' and isinstance(site[1], int) and site[1] >= 100:
            self.probes['switch_between_balance_refs'] += 1
            if any(self.inflight[t] and ('bal1' in self.inflight[t] or 'bal2' in self.inflight[t]) for t in other_in):
                self.probes['switch_between_balance_refs_other_balance_inflight'] += 1


def execute(case, keep_log=False):
    W = case['world']
    pool = W['stmts']
    log = core.EventLog(keep=keep_log)
    viols = []
    stats = {'ops': 0}
    n = len(case['clients'])
    topology = W['topology']
    tables = W['tables']

    def ledger_of(tid):
        return W['ledgers'][tid % len(W['ledgers'])] if topology == 'diff_ledger' else W['ledgers'][0]

    def violation(oracle, where, op, expected, observed, sigx=''):
        viols.append({'oracle': oracle, 'where': where, 'op': op, 'expected': expected, 'observed': observed,
                      'sig': f'C20:{oracle}{sigx}'})

    # advertised DB-API attributes
    if getattr(beanquery, 'threadsafety', None) != 2:
        violation('advertised-level', 'module', {'op': 'module'}, 2, getattr(beanquery, 'threadsafety', None))

    # serial pre-pass: every statement alone on a fresh connection, inert seams
    plan = []
    with world.reference_mode():
        for tid, cl in enumerate(case['clients']):
            p = []
            for op in cl['ops']:
                st = pool[op['stmt']]
                vals = [world.dec(v) for v in op.get('vals', [])]
                text, params = c09.params_for(st, op.get('mode', 'lit'), vals)
                if st['types'] and op.get('mode', 'lit') == 'lit' and not op.get('real_parse'):
                    pos_text = c09.render(st['t'], 'pos', vals)
                    ordered = [vals[k] for k in c09.slot_order(st['t'], len(st['types']))]
                    mk = (lambda pos_text=pos_text, ordered=ordered: stmts.substituted(pos_text, ordered))
                else:
                    mk = (lambda text=text: stmts.fresh_ast(text))
                rc = world.make_connection(ledger_of(tid), tables, copy=1)
                try:
                    ref = outcome(rc, mk(), copy.deepcopy(params))
                except Exception as e:      # parse error building the AST
                    ref = ('err', core.exc_class(e), None)
                p.append((op, st, text, params, mk, ref))
            plan.append(p)

    rng = core.random.Random(case['sched']['seed'])
    S = Sim(log, n, rng=rng, strategy=case['sched']['strategy'], forced=case.get('decisions'),
            trace_lines=case.get('trace') or False)
    world.set_current(S)
    try:
        if topology == 'shared':
            shared = world.make_connection(W['ledgers'][0], tables, copy=0)
            conns = [shared] * n
        else:
            conns = [world.make_connection(ledger_of(t), tables, copy=0) for t in range(n)]
        S.conn_of = conns
        entries_repr0 = [repr(c.tables['postings'].entries) for c in conns]
        results = [[None] * len(plan[t]) for t in range(n)]

        def client(tid):
            def fn():
                conn = conns[tid]
                for oi, (op, st, text, params, mk, ref) in enumerate(plan[tid]):
                    S.yield_point(('op', 'begin'))
                    try:
                        arg = text if op.get('real_parse') else mk()
                    except Exception:
                        arg = text
                    S.inflight[tid] = st['tags'] or ['plain']
                    S.stmt_of[tid] = text
                    S.as_text[tid] = isinstance(arg, str)
                    S.arm(tid, op.get('fault'))
                    got = outcome(conn, arg, params, op.get('via'), lambda: S.yield_point(('op', 'fetch')))
                    fired = S.disarm(tid)
                    S.inflight[tid] = None
                    S.stmt_of[tid] = None
                    results[tid][oi] = (got, fired)
                    log.add('done', tid, oi, got[0], got[1] if got[0] == 'err' else core.digest(got)[:12], fired)
                    S.yield_point(('op', 'end'))
            return fn

        S.run([client(t) for t in range(n)])
        if case.get('decisions') is None:
            case['decisions'] = S.decisions
        log.add('decisions', S.decisions)

        for tid in range(n):
            for oi, (op, st, text, params, mk, ref) in enumerate(plan[tid]):
                stats['ops'] += 1
                got, fired = results[tid][oi]
                where = f't{tid}.{oi}'
                opj = {k_: v_ for k_, v_ in op.items()}
                opj['text'] = text
                if got[0] == 'err' and got[1] in ('SimStorageError', 'SimUdfError', 'SimCancel') and not fired:
                    raise core.HarnessError(f'injected exception without a fired fault: {opj}')
                if fired:
                    if got[0] == 'ok' and got != ref:
                        violation('faulted-op-wrong-data', where, opj, c09.brief(ref), c09.brief(got))
                    continue
                if got[0] == 'err' and ref[0] == 'err':
                    if got[1] != ref[1]:
                        violation('serial-equivalence', where, opj, c09.brief(ref), c09.brief(got), ':exception-class')
                    continue
                if got != ref:
                    violation('serial-equivalence', where, opj, c09.brief(ref), c09.brief(got),
                              ':fails' if got[0] == 'err' else ':differs')
        for c_, r0 in zip(conns, entries_repr0):
            if repr(c_.tables['postings'].entries) != r0:
                violation('source-data-mutated', 'end', {'op': 'end'}, 'unchanged', 'changed')
                break
        stats['nontrivial'] = S.overlap
    finally:
        world.set_current(None)
    stats['steps'] = S.steps
    stats['switches'] = S.switches
    stats['probes'] = dict(S.probes)
    stats['faults_fired'] = dict(S.fired)
    stats['strategy'] = {case['sched']['strategy']['kind']: 1}
    stats['topology'] = {topology: 1}
    stats['traced_runs'] = int(bool(case.get('trace')))
    if not case.get('trace'):
        stats['pairs'] = dict(S.pairs)
    else:
        stats['line_switch_sites'] = len(S.pairs)
    shape = core.digest([[s['t'] for s in pool], [[(o['stmt'], o.get('mode'), o.get('vals')) for o in c['ops']] for c in case['clients']],
                         topology, S.decisions])
    out = {'digest': log.digest(), 'shape_digest': shape, 'violations': viols, 'stats': stats}
    if keep_log:
        out['log'] = log.events
    return out


def simplify(case):
    W = case['world']
    for li, L in enumerate(W['ledgers']):
        if len(L['dirs']) > 1:
            for cut in (len(L['dirs']) // 2, len(L['dirs']) - 1):
                c = copy.deepcopy(case)
                c['world']['ledgers'][li]['dirs'] = L['dirs'][:cut]
                yield c
    t = W['tables'][0]
    if len(t['rows']) > 1:
        c = copy.deepcopy(case)
        c['world']['tables'][0]['rows'] = t['rows'][:len(t['rows']) // 2]
        yield c
    if case.get('trace'):
        c = copy.deepcopy(case)
        c['trace'] = False
        yield c
    for ci, cl in enumerate(case['clients']):
        for oi, op in enumerate(cl['ops']):
            if op.get('fault') or op.get('real_parse'):
                c = copy.deepcopy(case)
                c['clients'][ci]['ops'][oi].pop('fault', None)
                c['clients'][ci]['ops'][oi]['real_parse'] = False
                yield c


def sample(case, out):
    pool = case['world']['stmts']
    return {'topology': case['world']['topology'], 'strategy': case['sched']['strategy'], 'trace_lines': case.get('trace'),
            'threads': [[pool[o['stmt']]['t'] + (f'  params={o["vals"]}' if o.get('vals') else '') for o in c['ops']]
                        for c in case['clients']],
            'decisions': (case.get('decisions') or [])[:80], 'violations': len(out['violations'])}
