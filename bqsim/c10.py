"""C10 - cursor fetch protocol and description conform to the DB-API.

Seeded call histories over 1-4 cursors of one connection, failing executes as
faults, checked operation by operation against an independent reference model
(list + position) written from the property statement.
"""

import copy

from . import core, sim, stmts, world
from .core import canon, canon_rows, INJECTED

core.bootstrap()

import beanquery  # noqa: E402
from beanquery import compiler, parser, query_execute  # noqa: E402

PROP = 'C10'
RULE = ('one run = one seeded history of cursor calls (execute/fetchone/fetchmany/fetchall/iterate/attribute reads/'
        'description probes) over 1-4 cursors of one connection, interleaved by an explicit schedule, with failing '
        'executes (parse/compile errors, injected storage error, user-function error, cancellation) as faults. '
        'non-trivial = the history contains at least one successful execute followed by at least two fetch-type calls '
        'on the same cursor; distinct = distinct digest of (op sequence, schedule, observations).')
ASSUMPTIONS = [
    'rows fed to the model come from the engine below the cursor (compile + execute_query on a fresh connection): only the cursor layer is judged',
    'behaviour after a failed execute is not pinned by the property: the model keeps the alternatives {unchanged, cleared} and only a torn mixture is a violation',
    'iteration (complete or partial) is a way of fetching: rows it delivered are not delivered again and count in rownumber (PEP 249 next() == fetchone())',
    'type_code is only required to be non-None and equal for equal datatypes within a run',
]
PROBES = ['partial_iteration', 'large_result_over_64_rows', 'caller_mutates_returned_list', 'executemany', 'executemany_with_arraysize_set', 'fetchmany_beyond_remainder', 'fetch_after_exhaustion', 'reexecute_with_rows_pending', 'failed_execute_then_fetch',
          'rowcount_after_partial_fetch', 'description_slice', 'two_cursors_both_pending', 'empty_result', 'fetch_before_execute',
          'arraysize_default_used', 'iterate_after_partial_fetch']

FETCH_OPS = ('fetchone', 'fetchmany', 'fetchall', 'iter')


# ---------------------------------------------------------------------------
# generation

def gen_stmts(rng, tname, ncols, nrows):
    cols = ['a', 'b', 'c', 'd', 'e'][:ncols]
    c1 = rng.choice(cols)
    c2 = rng.choice(cols)
    k = rng.randint(0, 10)
    lim = rng.randint(0, nrows + 2)
    pool = [
        f'SELECT {c1}, {c2} AS z FROM #{tname}',
        f'SELECT * FROM #{tname}',
        f'SELECT a FROM #{tname} WHERE a < {k}',
        f'SELECT {c1}, a FROM #{tname} ORDER BY a DESC LIMIT {lim}',
        f'SELECT DISTINCT {c2} FROM #{tname}',
        f'SELECT count(a) AS n, {c2} FROM #{tname} GROUP BY {c2}',
        f'SELECT a FROM #{tname} WHERE a > 100000',
        f'SELECT verif_fault(a, 0) AS f, {c1} FROM #{tname}',
        'SELECT date, account, position',
        'SELECT account, sum(position) AS s GROUP BY account',
        'SELECT date, narration FROM #transactions',
        f'SELECT NULL AS nothing, {c1} FROM #{tname}',
        'SELECT NULL AS n1, NULL AS n2, account LIMIT 2',
        'SELECT account, sum(position) AS s, first(date) AS d, count(number) AS n GROUP BY account',
        'SELECT position, weight, tags, number, cost_date LIMIT 3',
        'SELECT account, open.date AS od FROM #accounts',
        f'SELECT a FROM #{tname} LIMIT 1',
        f'SELECT a + 1 AS a1, {c1} FROM #{tname} LIMIT {lim}',
    ]
    bad = ['SELECT FROM', f'SELECT nosuch FROM #{tname}', 'SELECT a FROM #missing', f'SELECT sum(a), {c1} FROM #{tname} WHERE sum(a) > 1']
    n_ok = rng.randint(2, 5)
    out = rng.sample(pool, n_ok)
    if rng.random() < 0.6:
        out += rng.sample(bad, rng.randint(1, 2))
    rng.shuffle(out)
    return out


def generate(rng, tier, run):
    big = tier == 'thorough'
    nrows = rng.choice([0, 1, 2, 3, 5, 8, 13, 21, 40]) if not big else rng.randint(0, 60)
    if rng.random() < 0.07:
        # occasionally a large result: buffers released in chunks, thresholds, "small result" fast paths
        nrows = rng.choice([64, 65, 100, 128, 129, 200, 257, 400])
    ncols = rng.randint(1, 5)
    cols = [('a', 'int'), ('b', 'dec'), ('c', 'str'), ('d', 'date'), ('e', 'bool')][:ncols]
    table = world.gen_table(rng, 't0', nrows=nrows, cols=cols, nullable=0.1)
    # column a is never NULL and increasing so that WHERE a < k gives every size
    for i, r in enumerate(table['rows']):
        r[0] = world.enc(i)
    ledger = world.gen_ledger(rng, n_txn=rng.randint(1, 6), rich=False)
    st = gen_stmts(rng, 't0', ncols, nrows)
    ncur = rng.choice([1, 1, 2, 2, 3, 4])
    maxops = 30 if not big else 60
    clients = []
    for c in range(ncur):
        ops = []
        n = rng.randint(3, maxops)
        if rng.random() < 0.85:
            ops.append({'op': 'new_cursor'})
        else:
            ops.append({'op': 'conn_execute', 'stmt': rng.randrange(len(st))})
        w = {'execute': 5, 'fetchone': 6, 'fetchmany': 7, 'fetchall': 2, 'iter': 1.5, 'arraysize': 1.5,
             'rowcount': 3, 'rownumber': 3, 'description': 2, 'desc_probe': 3, 'close': 0.3,
             'setinputsizes': 0.3, 'setoutputsize': 0.3, 'conn_execute': 0.5, 'executemany': 0.8, 'mutate_result': 0.8}
        # swarm: switch some op kinds off per client
        for kname in list(w):
            if kname not in ('execute', 'fetchmany') and rng.random() < 0.2:
                w[kname] = 0
        kinds, weights = zip(*[(k_, v_) for k_, v_ in w.items() if v_ > 0])
        for _ in range(n):
            kname = rng.choices(kinds, weights)[0]
            op = {'op': kname}
            if kname in ('execute', 'conn_execute'):
                op['stmt'] = rng.randrange(len(st))
                op['real_parse'] = rng.random() < 0.15
                if kname == 'execute':
                    f = rng.random()
                    if f < 0.08:
                        op['fault'] = {'kind': 'storage', 'table': 't0', 'row': rng.randint(0, max(0, nrows))}
                    elif f < 0.12:
                        op['fault'] = {'kind': rng.choice(['udf', 'cancel']), 'k': 0, 'n': rng.randint(0, max(0, nrows))}
            elif kname == 'iter':
                op['n'] = None if rng.random() < 0.6 else rng.randint(0, nrows + 1)
            elif kname == 'mutate_result':
                op['how'] = rng.choice(['clear', 'append', 'reverse', 'pop'])
            elif kname == 'executemany':
                op['sets'] = [rng.randint(0, nrows + 2) for _ in range(rng.choice([0, 1, 2, 3]))]
            elif kname == 'fetchmany':
                op['n'] = None if rng.random() < 0.35 else rng.randint(1, nrows + 3)
                if nrows >= 64 and rng.random() < 0.5:
                    op['n'] = rng.choice([1, 2, 31, 32, 33, 63, 64, 65, 70, 100, 127, 128, 129])
            elif kname == 'arraysize':
                op['n'] = rng.randint(1, nrows + 3)
            elif kname == 'desc_probe':
                op['col'] = rng.randint(0, 5)
                op['probe'] = rng.choice(['len', 'index', 'neg', 'slice', 'iter', 'eq', 'oob', 'tuple'])
                op['a'] = rng.choice([None, 0, 1, 2, 5, -1, -3, 7, 9])
                op['b'] = rng.choice([None, 0, 1, 2, 5, -1, -3, 7, 9])
                op['st'] = rng.choice([None, None, 1, 2, -1])
                op['other'] = rng.randint(0, 5)
            ops.append(op)
        clients.append({'ops': ops})
    return {
        'world': {'ledger': ledger, 'tables': [table], 'stmts': st},
        'clients': clients,
        'schedule': sim.interleave(rng, [len(c['ops']) for c in clients]),
    }


# ---------------------------------------------------------------------------
# reference model (written from the property statement, not from cursor.py)

class State:
    __slots__ = ('rows', 'pos', 'total', 'desc', 'arraysize', 'cleared')

    def __init__(self, rows=None, pos=0, total=-1, desc=None, arraysize=1, cleared=False):
        self.rows, self.pos, self.total, self.desc, self.arraysize, self.cleared = rows, pos, total, desc, arraysize, cleared

    def but(self, **kw):
        s = State(self.rows, self.pos, self.total, self.desc, self.arraysize, self.cleared)
        for k, v in kw.items():
            setattr(s, k, v)
        return s

    def remaining(self):
        return [] if self.rows is None else self.rows[self.pos:]

    def brief(self):
        return {'nrows': None if self.rows is None else len(self.rows), 'pos': self.pos, 'total': self.total,
                'desc': self.desc, 'arraysize': self.arraysize, 'cleared': self.cleared}


def model_step(s, op, obs):
    """All model states consistent with observing `obs` for `op` in state `s`;
    empty list = inconsistent.  Also returns what was expected (for reports)."""
    k = op['op']
    if k == 'fetchone':
        rem = s.remaining()
        exp = rem[0] if rem else None
        return ([s.but(pos=s.pos + (1 if rem else 0))] if obs == exp else []), exp
    if k == 'fetchmany':
        n = op.get('n') if op.get('n') is not None else s.arraysize
        exp = s.remaining()[:n]
        return ([s.but(pos=s.pos + len(exp))] if obs == exp else []), exp
    if k == 'fetchall':
        exp = s.remaining()
        return ([s.but(pos=s.pos + len(exp))] if obs == exp else []), exp
    if k == 'iter':
        # iteration is one more way of fetching: it delivers the remaining rows in order and they are then
        # fetched ("no row twice" across any sequence of fetch and iteration calls, rownumber counts them)
        n = op.get('n')
        exp = s.remaining() if n is None else s.remaining()[:n]
        return ([s.but(pos=s.pos + len(exp))] if obs == exp else []), exp
    if k == 'rowcount':
        if s.cleared:
            return ([s] if obs in (-1, 0) else []), [-1, 0]
        return ([s] if obs == s.total else []), s.total
    if k == 'rownumber':
        if s.rows is None:
            return ([s] if obs in (0, None) else []), [0, None]
        return ([s] if obs == s.pos else []), s.pos
    if k == 'description':
        exp = None if s.desc is None else [n for n, _ in s.desc]
        return ([s] if obs == exp else []), exp
    if k == 'arraysize':
        return [s.but(arraysize=op['n'])], None
    if k in ('close', 'setinputsizes', 'setoutputsize'):
        return [s], None
    raise core.HarnessError(k)


# ---------------------------------------------------------------------------
# execution

MANY = 'SELECT a, a - %s AS x FROM #t0 WHERE a < %s'


def below_cursor(conn_factory, text, params=None):
    """(desc, rows) from the engine below the cursor on a fresh connection, or
    the exception class name.  Inert harness seams."""
    with world.reference_mode():
        try:
            conn = conn_factory()
            q = compiler.compile(conn, stmts.fresh_ast(text), params)
            desc, rows = query_execute.execute_query(q)
            return ('ok', [[c.name, core.type_name(c.datatype)] for c in desc], canon_rows(rows))
        except Exception as e:
            return ('err', core.exc_class(e), None)


def observe_desc(desc, typecodes, viol):
    """Canonical observation of cursor.description: the column names, read
    through the 7-item protocol only (no extension attributes)."""
    if desc is None:
        return None
    return [entry[0] for entry in desc]


def execute(case, keep_log=False):
    W = case['world']
    log = core.EventLog(keep=keep_log)
    S = sim.OpSim(log)
    world.set_current(S)
    viols = []
    stats = {'ops': 0, 'probes': S.probes, 'faults_fired': S.fired}
    try:
        conn = world.make_connection(W['ledger'], W['tables'], copy=0)

        def ref_conn():
            return world.make_connection(W['ledger'], W['tables'], copy=1)

        refs = {}

        def ref(i):
            if i not in refs:
                refs[i] = below_cursor(ref_conn, W['stmts'][i])
            return refs[i]

        ncl = len(case['clients'])
        cursors = [None] * ncl
        models = [None] * ncl       # list of alternative States
        fetches_since_exec = [0] * ncl
        had_exec = [False] * ncl
        typecodes = {}
        nontrivial = False
        retained = []          # (client, op index, the list object a fetch returned, its canonical snapshot)
        retained_desc = []     # (client, op index, a description entry handed out earlier, (name, len))
        last_list = [None] * ncl
        order = sim.schedule_order(case.get('schedule', []), [len(c['ops']) for c in case['clients']])

        def violation(oracle, ci, oi, op, expected, observed, sigx=''):
            viols.append({'oracle': oracle, 'client': ci, 'op_index': oi, 'op': op,
                          'expected': expected, 'observed': observed,
                          'sig': f'C10:{oracle}:{op["op"]}{sigx}'})

        def do_execute(ci, oi, op, via_conn):
            nonlocal nontrivial
            text = W['stmts'][op['stmt']]
            r = ref(op['stmt'])
            arg = stmts.for_execute(text, op.get('real_parse', False))
            S.arm(op.get('fault'))
            exc = None
            try:
                if via_conn:
                    cur = conn.execute(arg)
                    if cur is None or not hasattr(cur, 'fetchone'):
                        violation('conn-execute-returns-cursor', ci, oi, op, 'cursor', repr(cur))
                        return
                    cursors[ci] = cur
                    models[ci] = [State()]
                else:
                    cursors[ci].execute(arg)
            except BaseException as e:
                if isinstance(e, core.HarnessError):
                    raise
                exc = e
            fired = S.disarm()
            log.add('execute', ci, op['stmt'], 'raised' if exc else 'ok', core.exc_class(exc) if exc else None, fired)
            if exc is not None:
                if isinstance(exc, INJECTED) and not fired:
                    raise core.HarnessError(f'injected exception without armed fault: {exc!r}')
                if r[0] == 'ok' and not fired:
                    violation('execute-outcome', ci, oi, op, 'success', core.exc_class(exc))
                    return
                if via_conn:
                    return
                S.probes['failed_execute'] += 1
                had_exec[ci] = had_exec[ci]
                alts = []
                for s in models[ci]:
                    alts.append(s)
                    alts.append(State(arraysize=s.arraysize, cleared=True))
                models[ci] = alts
                fetches_since_exec[ci] = -1000 if fetches_since_exec[ci] >= 0 else fetches_since_exec[ci]
                return
            if r[0] == 'err':
                violation('execute-outcome', ci, oi, op, r[1], 'success')
                return
            if any(s.rows is not None and s.pos < s.total for s in models[ci]):
                S.probes['reexecute_with_rows_pending'] += 1
            if not r[2]:
                S.probes['empty_result'] += 1
            if len(r[2]) > 64:
                S.probes['large_result_over_64_rows'] += 1
            arr = models[ci][0].arraysize
            models[ci] = [State(rows=r[2], pos=0, total=len(r[2]), desc=r[1], arraysize=arr)]
            fetches_since_exec[ci] = 0
            had_exec[ci] = True

        for (ci, oi) in order:
            op = case['clients'][ci]['ops'][oi]
            k = op['op']
            stats['ops'] += 1
            if k == 'new_cursor':
                cursors[ci] = conn.cursor()
                models[ci] = [State()]
                log.add('new_cursor', ci)
                continue
            if cursors[ci] is None:
                if k == 'conn_execute':
                    do_execute(ci, oi, op, True)
                    if cursors[ci] is None:
                        cursors[ci] = conn.cursor()
                        models[ci] = [State()]
                else:
                    cursors[ci] = conn.cursor()
                    models[ci] = [State()]
                    log.add('new_cursor', ci)
                if k == 'conn_execute':
                    continue
            cur = cursors[ci]
            if k == 'execute':
                do_execute(ci, oi, op, False)
                continue
            if k == 'mutate_result':
                # what a fetch returned belongs to the caller: changing it must not reach the cursor
                lst = last_list[ci]
                log.add('mutate_result', ci, op.get('how'), lst is not None)
                if isinstance(lst, list):
                    S.probes['caller_mutates_returned_list'] += 1
                    retained[:] = [r_ for r_ in retained if r_[2] is not lst]
                    if op['how'] == 'clear':
                        lst.clear()
                    elif op['how'] == 'append':
                        lst.append(('bogus',))
                    elif op['how'] == 'reverse':
                        lst.reverse()
                    elif lst:
                        lst.pop()
                continue
            if k == 'executemany':
                # the statement is executed once per parameter set; the cursor then holds the last result;
                # with no parameter set nothing is executed.  arraysize is a property of the cursor, not of a result.
                sets = [[v, v] for v in op['sets']]
                exc = None
                try:
                    cur.executemany(MANY, sets)
                except Exception as e:
                    exc = e
                log.add('executemany', ci, op['sets'], core.exc_class(exc) if exc else None)
                if exc is not None:
                    violation('no-raise', ci, oi, op, 'no exception', f'{core.exc_class(exc)}: {exc}')
                    continue
                S.probes['executemany'] += 1
                if sets:
                    key = ('many', op['sets'][-1])
                    if key not in refs:
                        refs[key] = below_cursor(ref_conn, MANY, sets[-1])
                    r = refs[key]
                    arr = models[ci][0].arraysize
                    if any(s_.arraysize != 1 for s_ in models[ci]):
                        S.probes['executemany_with_arraysize_set'] += 1
                    models[ci] = [State(rows=r[2], pos=0, total=len(r[2]), desc=r[1], arraysize=arr)]
                    fetches_since_exec[ci] = 0
                    had_exec[ci] = True
                continue
            if k == 'conn_execute':
                do_execute(ci, oi, op, True)
                continue

            # probes evaluated on the model before the call
            m0 = models[ci][0]
            if k in FETCH_OPS:
                if not had_exec[ci]:
                    S.probes['fetch_before_execute'] += 1
                if fetches_since_exec[ci] < 0:
                    S.probes['failed_execute_then_fetch'] += 1
                    fetches_since_exec[ci] = 0
                if m0.rows is not None and m0.pos >= m0.total and m0.total > 0:
                    S.probes['fetch_after_exhaustion'] += 1
                if k == 'fetchmany':
                    n = op.get('n') if op.get('n') is not None else m0.arraysize
                    if op.get('n') is None:
                        S.probes['arraysize_default_used'] += 1
                    if m0.rows is not None and 0 < m0.total - m0.pos < n:
                        S.probes['fetchmany_beyond_remainder'] += 1
                if k == 'iter' and m0.rows is not None and 0 < m0.pos < m0.total:
                    S.probes['iterate_after_partial_fetch'] += 1
                fetches_since_exec[ci] += 1
                if had_exec[ci] and fetches_since_exec[ci] >= 2:
                    nontrivial = True
                pend = sum(1 for j in range(ncl) if models[j] and models[j][0].rows is not None
                           and models[j][0].pos < models[j][0].total)
                if pend >= 2:
                    S.probes['two_cursors_both_pending'] += 1
            if k == 'rowcount' and m0.rows is not None and 0 < m0.pos:
                S.probes['rowcount_after_partial_fetch'] += 1

            try:
                if k == 'desc_probe':
                    obs = run_desc_probe(cur, op, models[ci], typecodes, S)
                    log.add('desc_probe', ci, op['probe'], obs)
                    if obs and obs[0] == 'bad':
                        violation('description-entry', ci, oi, op, obs[2], obs[1], ':' + op['probe'])
                    continue
                if k == 'fetchone':
                    r_ = cur.fetchone()
                    obs = None if r_ is None else canon(tuple(r_))
                elif k == 'fetchmany':
                    r_ = cur.fetchmany() if op.get('n') is None else cur.fetchmany(op['n'])
                    obs = canon_rows(r_)
                    last_list[ci] = r_
                    retained.append((ci, oi, r_, obs))
                    if not isinstance(r_, (list, tuple)):
                        violation('fetch-returns-sequence', ci, oi, op, 'list', type(r_).__name__)
                elif k == 'fetchall':
                    r_ = cur.fetchall()
                    obs = canon_rows(r_)
                    last_list[ci] = r_
                    retained.append((ci, oi, r_, obs))
                    if not isinstance(r_, (list, tuple)):
                        violation('fetch-returns-sequence', ci, oi, op, 'list', type(r_).__name__)
                elif k == 'iter':
                    if op.get('n') is None:
                        obs = canon_rows(list(cur))
                    else:
                        # a partial iteration: take the first n items of a fresh iterator, then leave it
                        import itertools
                        obs = canon_rows(list(itertools.islice(iter(cur), op['n'])))
                        S.probes['partial_iteration'] += 1
                elif k == 'rowcount':
                    obs = cur.rowcount
                elif k == 'rownumber':
                    obs = cur.rownumber
                elif k == 'description':
                    d_ = cur.description
                    obs = observe_desc(d_, typecodes, viols)
                    if d_ is not None and len(retained_desc) < 40:
                        for e_ in d_:
                            retained_desc.append((ci, oi, e_, (e_[0], len(e_), e_[1])))
                elif k == 'arraysize':
                    cur.arraysize = op['n']
                    obs = None
                elif k == 'close':
                    # DB-API: a cursor is unusable after close; beanquery's close is a no-op.  The
                    # property pins neither, so the client continues on a brand-new cursor (which
                    # also exercises cursors created after other cursors have been used).
                    cur.close()
                    cursors[ci] = conn.cursor()
                    models[ci] = [State()]
                    had_exec[ci] = False
                    fetches_since_exec[ci] = 0
                    log.add('close', ci)
                    continue
                elif k == 'setinputsizes':
                    cur.setinputsizes([None])
                    obs = None
                elif k == 'setoutputsize':
                    cur.setoutputsize(100)
                    obs = None
                else:
                    raise core.HarnessError(k)
            except core.HarnessError:
                raise
            except Exception as e:
                log.add(k, ci, 'raised', core.exc_class(e))
                violation('no-raise', ci, oi, op, 'no exception', f'{core.exc_class(e)}: {e}')
                continue
            log.add(k, ci, op.get('n'), obs)
            alts = []
            exp = None
            for s in models[ci]:
                a, e_ = model_step(s, op, obs)
                if exp is None:
                    exp = e_
                alts.extend(a)
            if not alts:
                violation('model', ci, oi, op, {'expected': exp, 'model': [s.brief() for s in models[ci]][:3]}, obs)
                # resynchronise on the first alternative so later ops are still judged
                s = models[ci][0]
                models[ci] = [s]
            else:
                # dedupe
                seen = {}
                for s in alts:
                    seen[(s.pos, s.total, s.cleared, s.rows is None, s.arraysize, core.jdump(s.desc))] = s
                models[ci] = list(seen.values())
        # description entries handed out earlier keep describing the column they described
        for (ci, oi, e_, snap) in retained_desc:
            try:
                now = (e_[0], len(e_), e_[1])
            except Exception as ex:
                now = core.exc_class(ex)
            if now != snap:
                # type codes are per-process values: report which field moved, never the code itself
                what = 'raised' if not isinstance(now, tuple) else ('name/len' if now[:2] != snap[:2] else 'type_code')
                violation('description-entry-changed-later', ci, oi, case['clients'][ci]['ops'][oi], list(snap[:2]), what)
                break
        # rows handed out by earlier fetch calls stay what they were, whatever the cursor did afterwards
        for (ci, oi, lst, snap) in retained:
            try:
                now = canon_rows(lst)
            except Exception:
                now = 'unreadable'
            if now != snap:
                violation('returned-rows-changed-later', ci, oi, case['clients'][ci]['ops'][oi], snap[:6], now[:6] if isinstance(now, list) else now)
                break
        stats['nontrivial'] = nontrivial
    finally:
        world.set_current(None)
    stats['steps'] = S.steps
    stats['probes'] = dict(S.probes)
    stats['faults_fired'] = dict(S.fired)
    out = {'digest': log.digest(), 'violations': viols, 'stats': stats}
    if keep_log:
        out['log'] = log.events
    return out


def run_desc_probe(cur, op, alts, typecodes, S):
    """Probe description[col] through the sequence protocol and compare with
    the tuple (name, type_code, None x5).  Returns ('ok', ...) or ('bad', observed, expected)."""
    desc = cur.description
    m = alts[0]
    if desc is None:
        if all(s.desc is None for s in alts):
            return ('none',)
        if any(s.desc is None for s in alts):
            return ('none',)
        return ('bad', None, 'a description')
    if all(s.desc is None for s in alts):
        return ('bad', 'a description', None)
    md = next(s.desc for s in alts if s.desc is not None)
    if len(desc) != len(md):
        return ('bad', len(desc), len(md))
    if not md:
        return ('nocols',)
    i = op['col'] % len(md)
    entry = desc[i]
    name, dtn = md[i]
    p = op['probe']
    code = entry[1]
    if code is None:
        return ('bad', 'type_code None', 'a type code')
    prev = typecodes.setdefault(dtn, code)
    if prev != code:
        return ('bad', 'type_code differs for equal datatype', 'stable type_code')
    exp7 = (name, code, None, None, None, None, None)
    if p == 'len':
        return ('ok',) if len(entry) == 7 else ('bad', len(entry), 7)
    if p == 'tuple' or p == 'iter':
        got = tuple(iter(entry)) if p == 'iter' else tuple(entry)
        return ('ok',) if got == exp7 else ('bad', repr(got[:1] + got[2:]), repr(exp7[:1] + exp7[2:]))
    if p == 'index' or p == 'neg':
        a = op['a'] if op['a'] is not None else 0
        a = a % 7 if p == 'index' else -1 - (abs(a) % 7)
        got = entry[a]
        if got == exp7[a] and (got is None) == (exp7[a] is None):
            return ('ok',)
        # type codes are per-process hashes: never put them into the log
        show = (lambda v: 'type_code' if (a % 7 == 1 and v is not None) else repr(v))
        return ('bad', f'entry[{a}] = {show(got)}', f'entry[{a}] = {show(exp7[a])}')
    if p == 'oob':
        for idx in (7, -8, 100):
            try:
                entry[idx]
            except IndexError:
                continue
            return ('bad', f'entry[{idx}] did not raise IndexError', 'IndexError')
        return ('ok',)
    if p == 'slice':
        S.probes['description_slice'] += 1
        sl = slice(op['a'], op['b'], op['st'])
        got = entry[sl]
        want = exp7[sl]
        ok = list(got) == list(want)
        return ('ok',) if ok else ('bad', f'{sl}: {len(list(got))} items', f'{sl}: {len(want)} items')
    if p == 'eq':
        j = op['other'] % len(md)
        other = desc[j]
        want = (md[i] == md[j])
        got1 = (entry == other)
        got2 = (other == entry)
        got3 = not (entry != other)
        refl = (entry == entry)
        if got1 is want and got2 is want and got3 is want and refl is True:
            return ('ok',)
        return ('bad', [got1, got2, got3, refl], [want, want, want, True])
    raise core.HarnessError(p)


# ---------------------------------------------------------------------------

def simplify(case):
    """Property-specific shrink candidates: smaller table, smaller ledger."""
    W = case['world']
    t = W['tables'][0]
    if len(t['rows']) > 1:
        c = copy.deepcopy(case)
        c['world']['tables'][0]['rows'] = t['rows'][:len(t['rows']) // 2]
        yield c
        c = copy.deepcopy(case)
        c['world']['tables'][0]['rows'] = t['rows'][:-1]
        yield c
    if len(W['ledger']['dirs']) > 1:
        c = copy.deepcopy(case)
        c['world']['ledger']['dirs'] = W['ledger']['dirs'][:1]
        yield c
    for ci, cl in enumerate(case['clients']):
        for oi, op in enumerate(cl['ops']):
            if op.get('real_parse') or op.get('fault'):
                c = copy.deepcopy(case)
                c['clients'][ci]['ops'][oi].pop('fault', None)
                c['clients'][ci]['ops'][oi]['real_parse'] = False
                yield c


def sample(case, out):
    return {'stmts': case['world']['stmts'], 'table_rows': len(case['world']['tables'][0]['rows']),
            'clients': [[_brief(o) for o in c['ops']] for c in case['clients']],
            'schedule': case['schedule'][:60], 'violations': len(out['violations'])}


def _brief(op):
    s = op['op']
    if 'stmt' in op:
        s += f'#{op["stmt"]}'
    if op.get('n') is not None:
        s += f'({op["n"]})'
    if op.get('sets') is not None:
        s += f'x{len(op["sets"])}'
    if op.get('fault'):
        s += f'!{op["fault"]["kind"]}'
    if op['op'] == 'desc_probe':
        s += f':{op["probe"]}'
    return s
