"""bqsim - deterministic simulation with fault injection for beanquery.

See /verif/DESIGN.md.  Import order matters: `core.bootstrap()` puts the tree
under test (BQSIM_REPO or /repo) first on sys.path before beanquery is imported.
"""
