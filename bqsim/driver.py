"""Batch driver: seeded runs on a process pool, determinism self-test,
minimisation, replay files, known findings, evidence.

The wall clock is read here only (batch safety cap and reporting), never
inside a run.
"""

import collections
import concurrent.futures
import copy
import faulthandler
import json
import multiprocessing
import os
import subprocess
import sys
import time
import traceback

from . import core

REPLAY_DIR = os.path.join(core.VERIF_DIR, 'replays')
EVIDENCE_DIR = os.path.join(core.VERIF_DIR, 'evidence')
KNOWN_FILE = os.path.join(core.VERIF_DIR, 'known_findings.json')

EXIT_OK, EXIT_VIOLATION, EXIT_HARNESS = 0, 1, 2

COMPONENTS = {
    'real': [
        'beanquery.Connection / Cursor / Column (cursor.py, __init__.py)',
        'beanquery.parser (TatSu grammar, AST)', 'beanquery.compiler', 'beanquery.query_compile',
        'beanquery.query_execute', 'beanquery.query_env (all columns, functions, aggregators, tables)',
        'beanquery.sources.beancount tables', 'beanquery.numberify', 'beanquery.query_render, render.text, render.csv',
        'beanquery.shell (BQLShell, DispatchingShell, Settings, main)',
        'beancount core (loader.load_string, Inventory, summarize, printer) - trusted dependency',
    ],
    'stub': [
        'row-source iteration: SimTable / SimPostings / SimEntries wrap the real iteration with yield and fault points',
        'user BQL functions verif_yield / verif_reenter / verif_fault (identity + report to the simulator)',
        'ledger storage: in-memory text -> loader.load_string, handed over through entries=/errors=/options=',
        'output streams: SimWriter (in-memory, optional OSError on k-th write)',
        'thread scheduling: baton-passing scheduler decides who runs; OS scheduler never does',
    ],
    'absent_in_beanquery_not_simulated': [
        'network / message loss / partitions', 'durable store / torn or lost writes / crash-restart',
        'timers / clock skew (the single wall-clock read, today(), is excluded from workloads)',
        'allocation failures',
    ],
}


# ---------------------------------------------------------------------------
# worker side

_MOD = None
_WORKER_HISTORY = []      # run indices this worker process has executed so far, in order


def _load_module(prop):
    import importlib
    return importlib.import_module('bqsim.' + prop.lower())


def _worker_init(prop):
    global _MOD
    faulthandler.enable()
    core.bootstrap()
    _MOD = _load_module(prop)


def run_one(mod, master, tier, run, keep_log=False, case=None):
    """Generate (unless given) and execute one run.  Pure function of
    (master, tier, run) and the code under test."""
    core.reset_process_state()
    if case is None:
        rng = core.rng_for(master, mod.PROP, run, 'gen')
        case = mod.generate(rng, tier, run)
        case['property'] = mod.PROP
        case['seed'] = master
        case['run'] = run
        case['tier'] = tier
    out = mod.execute(case, keep_log=keep_log)
    core.reset_process_state()
    return case, out


def _worker_chunk(args):
    master, tier, runs, budget_s, sample_every = args
    faulthandler.dump_traceback_later(max(120, budget_s), exit=True)
    res = {'runs': 0, 'digests': [], 'nontrivial': [], 'fail': [], 'stats': collections.Counter(),
           'harness_errors': [], 'samples': [], 'sampled': []}
    for run in runs:
        try:
            case, out = run_one(_MOD, master, tier, run)
        except core.HarnessError as e:
            res['harness_errors'].append((run, f'{type(e).__name__}: {e}', traceback.format_exc()))
            continue
        except BaseException as e:   # harness defect; never a VIOLATION
            res['harness_errors'].append((run, f'{type(e).__name__}: {e}', traceback.format_exc()))
            continue
        res['runs'] += 1
        before = _WORKER_HISTORY[-192:]
        _WORKER_HISTORY.append(run)
        res['digests'].append((run, out['digest'][:16]))
        if sample_every and run % sample_every == 3 and not out['violations']:
            res['sampled'].append((run, out['digest'][:16], before[-96:]))
        if out['stats'].get('nontrivial'):
            res['nontrivial'].append(out.get('shape_digest', out['digest'])[:16])
        for k, v in out['stats'].items():
            if isinstance(v, bool):
                res['stats'][k] += int(v)
            elif isinstance(v, int):
                res['stats'][k] += v
            elif isinstance(v, dict):
                for kk, vv in v.items():
                    res['stats'][f'{k}.{kk}'] += vv
        if out['violations']:
            if len(res['fail']) < 12:
                res['fail'].append((run, case, out['violations'], before))
            else:
                res['fail'].append((run, None, [{'sig': v['sig']} for v in out['violations']], None))
        if len(res['samples']) < 1:
            res['samples'].append(_MOD.sample(case, out))
    faulthandler.cancel_dump_traceback_later()
    res['stats'] = dict(res['stats'])
    return res


# ---------------------------------------------------------------------------
# known findings

def load_known():
    try:
        with open(KNOWN_FILE) as f:
            data = json.load(f)
    except FileNotFoundError:
        return []
    return data.get('findings', [])


def match_known(prop, sig):
    for k in load_known():
        if k.get('property') == prop and k.get('status') == 'open' and k.get('sig') == sig:
            return k
    return None


# ---------------------------------------------------------------------------
# minimisation

def in_clean_child(fn, *args, timeout=300):
    """Run fn(*args) in a forked child of this process and return its result.

    The driver process itself never executes a case, so every child starts from
    the same pristine interpreter state (beanquery imported, nothing executed):
    state that the code under test leaks between executions in one process
    (module- or class-level caches) cannot travel from one candidate to the next.
    Returns ('ok', value) or ('exc', text)."""
    import pickle
    r, w = os.pipe()
    pid = os.fork()
    if pid == 0:
        code = 0
        try:
            os.close(r)
            faulthandler.dump_traceback_later(timeout, exit=True)
            try:
                res = ('ok', fn(*args))
            except BaseException as e:
                res = ('exc', f'{type(e).__name__}: {e}\n{traceback.format_exc()}')
            with os.fdopen(w, 'wb') as f:
                pickle.dump(res, f)
        except BaseException:
            code = 3
        finally:
            os._exit(code)
    os.close(w)
    with os.fdopen(r, 'rb') as f:
        data = f.read()
    os.waitpid(pid, 0)
    if not data:
        return ('exc', 'child died without a result')
    return pickle.loads(data)


def _execute_case(mod, case, keep_log):
    core.reset_process_state()
    out = mod.execute(case, keep_log=keep_log)
    out['case_after'] = case      # execute may record decisions into the case
    return out


def _execute_with_prelude(mod, prelude_cases, case, keep_log):
    """Execute `prelude_cases` one after the other in this process, ignoring their outcomes, then `case`."""
    for pc in prelude_cases:
        try:
            core.reset_process_state()
            mod.execute(copy.deepcopy(pc), keep_log=False)
        except core.HarnessError:
            raise
        except BaseException:
            pass
    return _execute_case(mod, case, keep_log)


def fails_after(mod, prelude_cases, case, sig):
    st, out = in_clean_child(_execute_with_prelude, mod, prelude_cases, case, False, timeout=600)
    return st == 'ok' and any(v['sig'] == sig for v in out['violations'])


def _gen_case(mod, master, tier, run):
    rng = core.rng_for(master, mod.PROP, run, 'gen')
    case = mod.generate(rng, tier, run)
    case.update({'property': mod.PROP, 'seed': master, 'run': run, 'tier': tier})
    return case


def find_prelude(mod, master, tier, before, case, sig, deadline):
    """The failing run does not fail alone.  Find a short list of earlier runs of its worker after which it
    does (state carried from one execution to the next inside the process), smallest suffix first, then ddmin."""
    k = 1
    found = None
    while k <= max(1, len(before)) and time.time() < deadline:
        pre = [_gen_case(mod, master, tier, r) for r in before[-k:]]
        if fails_after(mod, pre, case, sig):
            found = pre
            break
        if k >= len(before):
            break
        k = min(len(before), k * 4)
    if found is None:
        return None
    def test(sub):
        return time.time() < deadline and fails_after(mod, sub, case, sig)
    return _ddmin_list(found, test)


def _log_after(mod, prelude_cases, case):
    out = _execute_with_prelude(mod, prelude_cases, copy.deepcopy(case), True)
    return {'digest': out['digest'], 'log': out.get('log', []), 'violations': out['violations']}


def differs_after(mod, prelude_cases, case, alone_digest):
    st, r = in_clean_child(_log_after, mod, prelude_cases, case, timeout=600)
    return st == 'ok' and r['digest'] != alone_digest


def find_cross_execution_dependence(mod, master, tier, seq_runs, run, deadline):
    """`run` gives one outcome alone and another after the runs that preceded it in the self-test sequence,
    although it is deterministic in isolation: its results depend on what the process executed before.
    Returns (prelude cases, case, alone, after) with a ddmin-reduced prelude, or None."""
    case = _gen_case(mod, master, tier, run)
    st, alone = in_clean_child(_log_after, mod, [], case, timeout=600)
    if st != 'ok':
        return None
    before = [r for r in seq_runs[:seq_runs.index(run)]]
    pre = [_gen_case(mod, master, tier, r) for r in before]
    if not pre or not differs_after(mod, pre, case, alone['digest']):
        return None
    def test(sub):
        return time.time() < deadline and differs_after(mod, sub, case, alone['digest'])
    pre = _ddmin_list(pre, test)
    st, after = in_clean_child(_log_after, mod, pre, case, timeout=600)
    if st != 'ok' or after['digest'] == alone['digest']:
        return None
    return pre, case, alone, after


def fails_with(mod, case, sig):
    """Execute a candidate in a clean child; true iff it shows a violation of the same class."""
    st, out = in_clean_child(_execute_case, mod, case, False)
    if st != 'ok':
        return False
    return any(v['sig'] == sig for v in out['violations'])


def _ddmin_list(items, test):
    """Classic ddmin over a list; `test(sublist)` true iff still failing."""
    n = 2
    while len(items) >= 2:
        chunk = max(1, len(items) // n)
        reduced = False
        for i in range(0, len(items), chunk):
            cand = items[:i] + items[i + chunk:]
            if test(cand):
                items = cand
                n = max(n - 1, 2)
                reduced = True
                break
        if not reduced:
            if chunk == 1:
                break
            n = min(len(items), n * 2)
    if len(items) == 1 and test([]):
        items = []
    return items


def minimise(mod, case, sig, budget=400, deadline=None):
    """Shrink ops, faults, schedule and world while the same violation class
    persists.  Every candidate is executed from the explicit case (no PRNG)."""
    count = [0]

    def ok(c):
        if count[0] >= budget or (deadline is not None and time.time() > deadline):
            return False
        count[0] += 1
        return fails_with(mod, c, sig)

    case = copy.deepcopy(case)
    # 1. whole clients
    for ci in range(len(case.get('clients', []))):
        if case['clients'][ci]['ops']:
            cand = copy.deepcopy(case)
            cand['clients'][ci]['ops'] = []
            if ok(cand):
                case = cand
    # 2. single operations (ddmin per client)
    for ci in range(len(case.get('clients', []))):
        def test(ops, ci=ci):
            cand = copy.deepcopy(case)
            cand['clients'][ci]['ops'] = ops
            return ok(cand)
        case['clients'][ci]['ops'] = _ddmin_list(case['clients'][ci]['ops'], test)
    # 3. faults one at a time
    for key in ('faults',):
        i = 0
        while i < len(case.get(key, [])):
            cand = copy.deepcopy(case)
            del cand[key][i]
            if ok(cand):
                case = cand
            else:
                i += 1
    # 4. schedule: fewer context switches
    for key in ('schedule', 'decisions'):
        if case.get(key):
            def test(s, key=key):
                cand = copy.deepcopy(case)
                cand[key] = s
                return ok(cand)
            if test([]):
                case[key] = []
            else:
                case[key] = _ddmin_list(case[key], test)
    # 5. property-specific simplifications (statements, worlds)
    if hasattr(mod, 'simplify'):
        progress = True
        rounds = 0
        while progress and rounds < 6:
            progress = False
            rounds += 1
            for cand in mod.simplify(case):
                if ok(cand):
                    case = cand
                    progress = True
                    break
    case['minimised'] = {'candidates_tried': count[0]}
    return case


# ---------------------------------------------------------------------------
# replay

def write_replay(mod, case, violation, tag, prelude=None):
    os.makedirs(REPLAY_DIR, exist_ok=True)
    if prelude:
        st, out = in_clean_child(_execute_with_prelude, mod, prelude, case, True, timeout=600)
    else:
        st, out = in_clean_child(_execute_case, mod, case, True)
    if st != 'ok':
        raise core.HarnessError(f'replay execution failed: {out}')
    v = next((x for x in out['violations'] if x['sig'] == violation['sig']), violation)
    doc = {
        'property': mod.PROP,
        'seed': case.get('seed'), 'run': case.get('run'), 'tier': case.get('tier'),
        'violation': v,
        'digest': out['digest'],
        'case': case,
        'prelude': prelude or [],
        'prelude_note': ('the violation needs the prelude cases to be executed first in the same process: state is carried '
                         'from one execution to the next (module- or class-level state in the code under test)') if prelude else None,
        'log': out.get('log', [])[-200:],
        'how_to_replay': f'/venv/bin/python /verif/run_check.py {mod.PROP} --replay <this file>',
    }
    path = os.path.join(REPLAY_DIR, f'{mod.PROP}-{case.get("seed")}-{case.get("run")}-{tag}.json')
    with open(path, 'w') as f:
        json.dump(doc, f, indent=1, sort_keys=True, default=str)
    return path, doc


def replay_file(path, quiet=False):
    """Re-execute a replay file from its content alone; returns (reproduced, doc, out)."""
    with open(path) as f:
        doc = json.load(f)
    core.bootstrap()
    mod = _load_module(doc['property'])
    if doc.get('kind') == 'cross_execution':
        # reproduced iff the case alone and the case after the prelude give the recorded, different outcomes
        st1, alone = in_clean_child(_log_after, mod, [], doc['case'])
        st2, after = in_clean_child(_log_after, mod, doc['prelude'], doc['case'])
        ok_ = (st1 == 'ok' and st2 == 'ok' and alone['digest'] == doc['digest_alone'] and after['digest'] == doc['digest'])
        differ = st1 == 'ok' and st2 == 'ok' and alone['digest'] != after['digest']
        if not quiet:
            print(f'replay {path}: outcome alone vs after prelude differ={differ}; recorded digests reproduced={ok_}')
        out = {'violations': [doc['violation']] if differ else [], 'digest': after['digest'] if st2 == 'ok' else None}
        return (ok_ and differ), doc, out
    out = _execute_with_prelude(mod, doc.get('prelude') or [], doc['case'], True)
    core.reset_process_state()
    same_class = any(v['sig'] == doc['violation']['sig'] for v in out['violations'])
    same_digest = out['digest'] == doc['digest']
    if not quiet:
        print(f'replay {path}: violation reproduced={same_class} digest identical={same_digest}')
        for v in out['violations']:
            print('  ', core.jdump(v)[:2000])
    return same_class and same_digest, doc, out


def replay_in_fresh_process(path):
    env = dict(os.environ)
    # a fresh interpreter under the pinned hash seed (run_check.py pins PYTHONHASHSEED=0 for every check): results of
    # beanquery do not depend on the seed, but under line pre-emption the number of Python lines a piece of code
    # executes can (a loop over a set that stops at the first match), and the recorded decisions are step numbers
    env['PYTHONHASHSEED'] = '0'
    p = subprocess.run([sys.executable, os.path.join(core.VERIF_DIR, 'run_check.py'), '--replay', path, '--quiet'],
                       env=env, capture_output=True, text=True, timeout=300)
    return p.returncode == 1, p.stdout + p.stderr


# ---------------------------------------------------------------------------
# determinism self-test

def digests_for(mod, master, tier, runs):
    out = {}
    for r in runs:
        _, o = run_one(mod, master, tier, r)
        out[r] = o['digest']
    return out


def _digest_one(mod, master, tier, r):
    _, o = run_one(mod, master, tier, r)
    return o['digest']


def _twin_digest(args):
    """Runs in a pool worker that never executes a case itself: the run is executed in a forked child."""
    prop, master, tier, run = args
    mod = _load_module(prop)
    st, d = in_clean_child(_digest_one, mod, master, tier, run)
    return run, (d[:16] if st == 'ok' else None), (None if st == 'ok' else d)


def _twin_init():
    faulthandler.enable()
    core.bootstrap()


def digests_clean(mod, master, tier, runs):
    """Each run in its own clean child."""
    out = {}
    for r in runs:
        st, d = in_clean_child(_digest_one, mod, master, tier, r)
        if st != 'ok':
            raise core.HarnessError(f'self-test run {r} failed: {d}')
        out[r] = d
    return out


def determinism_selftest(mod, master, tier, runs, pool_digests):
    """Each of `runs` executed twice in clean forked children, once in sequence with
    others inside one child (different batch position), once by a pool worker (yet
    another position), and once in a fresh interpreter with a different
    PYTHONHASHSEED.  Returns (ok, report); report['position_dependent'] is set when
    only the in-sequence executions disagree - the signature of state that the code
    under test leaks from one execution to the next inside a process."""
    a = digests_clean(mod, master, tier, runs)
    b = digests_clean(mod, master, tier, list(reversed(runs)))
    st, seq = in_clean_child(digests_for, mod, master, tier, runs)
    if st != 'ok':
        return False, {'error': 'in-sequence self-test failed: ' + str(seq)[-1500:]}
    env = dict(os.environ)
    env['PYTHONHASHSEED'] = '987'
    env['VERIF_SEED'] = str(master)
    p = subprocess.run([sys.executable, os.path.join(core.VERIF_DIR, 'run_check.py'), mod.PROP, '--tier', tier,
                        '--digests', ','.join(map(str, runs))],
                       env=env, capture_output=True, text=True, timeout=900)
    if p.returncode != 0:
        return False, {'error': 'fresh interpreter failed: ' + (p.stdout + p.stderr)[-2000:]}
    c = {int(k): v for k, v in json.loads(p.stdout.strip().splitlines()[-1]).items()}
    mism, posdep = [], []
    for r in runs:
        isolated = {a[r][:16], b[r][:16], (c.get(r) or '')[:16]}
        if len(isolated) != 1:
            mism.append(r)
            continue
        positioned = {seq[r][:16]}
        if pool_digests.get(r) is not None:
            positioned.add(pool_digests[r])
        if positioned - isolated:
            posdep.append(r)
    return not (mism or posdep), {'runs_checked': len(runs), 'executions_each': 4 + (1 if pool_digests else 0),
                                  'fresh_interpreter_hashseed': 987, 'mismatching_runs': mism,
                                  'position_dependent_runs': posdep, 'position_dependent': bool(posdep and not mism)}


# ---------------------------------------------------------------------------
# batch

def run_batch(prop, tier, master, nruns, workers, wall_cap_s, selftest_n):
    t0 = time.time()
    core.bootstrap()
    mod = _load_module(prop)
    workers = max(1, workers)
    chunk = max(1, min(200, nruns // (workers * 4) or 1))
    chunks = [list(range(i, min(i + chunk, nruns))) for i in range(0, nruns, chunk)]
    agg = {'runs': 0, 'stats': collections.Counter(), 'fail': [], 'harness_errors': [], 'samples': [], 'sampled': []}
    # every sample_every-th run is executed a second time, alone in a clean process, and the digests compared
    n_iso = 96 if tier == 'quick' else 480
    sample_every = max(1, nruns // n_iso) if nruns >= 200 else 0
    pool_digests = {}
    nontrivial = set()
    all_digests = set()
    capped = False
    ctx = multiprocessing.get_context('fork')
    try:
        with concurrent.futures.ProcessPoolExecutor(max_workers=workers, mp_context=ctx,
                                                    initializer=_worker_init, initargs=(prop,)) as ex:
            futs = [ex.submit(_worker_chunk, (master, tier, c, int(wall_cap_s), sample_every)) for c in chunks]
            for fut in concurrent.futures.as_completed(futs):
                if time.time() - t0 > wall_cap_s:
                    capped = True
                    for f in futs:
                        f.cancel()
                    break
                r = fut.result()
                agg['runs'] += r['runs']
                agg['stats'].update(r['stats'])
                agg['fail'].extend(r['fail'])
                agg['sampled'].extend(r['sampled'])
                agg['harness_errors'].extend(r['harness_errors'])
                if len(agg['samples']) < 3:
                    agg['samples'].extend(r['samples'])
                for run, d in r['digests']:
                    if run < selftest_n * 7:
                        pool_digests[run] = d
                    all_digests.add(d)
                nontrivial.update(r['nontrivial'])
    except concurrent.futures.process.BrokenProcessPool as e:
        print(f'HARNESS-ERROR property={prop} worker died: {e}')
        return EXIT_HARNESS
    if agg['harness_errors']:
        run, msg, tb = agg['harness_errors'][0]
        print(f'HARNESS-ERROR property={prop} run={run} {msg}\n{tb}')
        return EXIT_HARNESS

    # determinism self-test
    st_runs = [r for r in range(0, selftest_n * 7, 7) if r < nruns]
    ok, st = determinism_selftest(mod, master, tier, st_runs, pool_digests) if st_runs else (True, {})
    if not ok and not st.get('position_dependent'):
        print(f'HARNESS-NONDETERMINISM property={prop} {core.jdump(st)}')
        return EXIT_HARNESS

    # isolated re-execution of a sample of the runs (position dependence beyond the small self-test)
    iso = {'runs_compared': 0, 'position_dependent_runs': []}
    iso_hist = {}
    if agg['sampled']:
        try:
            with concurrent.futures.ProcessPoolExecutor(max_workers=workers, mp_context=ctx, initializer=_twin_init) as ex2:
                want = {r_: (d_, b_) for r_, d_, b_ in agg['sampled']}
                for run_, d_iso, err in ex2.map(_twin_digest, [(prop, master, tier, r_) for r_ in sorted(want)]):
                    if err is not None:
                        print(f'HARNESS-ERROR property={prop} isolated re-execution of run {run_} failed: {str(err)[-800:]}')
                        return EXIT_HARNESS
                    iso['runs_compared'] += 1
                    if d_iso != want[run_][0]:
                        iso['position_dependent_runs'].append(run_)
                        iso_hist[run_] = want[run_][1]
        except concurrent.futures.process.BrokenProcessPool as e:
            print(f'HARNESS-ERROR property={prop} twin worker died: {e}')
            return EXIT_HARNESS
    st['isolated_sample'] = {'runs_compared': iso['runs_compared'], 'position_dependent_runs': iso['position_dependent_runs'][:20]}
    if iso['position_dependent_runs'] and ok:
        ok = False
        st['position_dependent'] = True
        st.setdefault('position_dependent_runs', [])

    # violations: one representative per signature, confirmed in a clean child
    exit_code = EXIT_OK
    by_sig = collections.OrderedDict()
    for run, case, viols, before in sorted(agg['fail'], key=lambda x: x[0]):
        for v in viols:
            e = by_sig.setdefault(v['sig'], {'runs': [], 'cases': [], 'v': None})
            e['runs'].append(run)
            if case is not None and 'oracle' in v and len(e['cases']) < 16:
                e['cases'].append((case, v, before or []))
    reports = []
    unreproducible = 0
    min_deadline = time.time() + 240      # wall budget for all minimisation of this batch (real-time cap only)
    for sig, e in by_sig.items():
        chosen = None
        prelude = None
        known = match_known(prop, sig)
        if known:
            # a recorded, unrepaired defect: confirm it once in a clean child, report it as such, spend no time minimising
            if any(fails_with(mod, case, sig) for case, v, before in e['cases'][:3]):
                print(f'KNOWN-FINDING: property={prop} {known["what"]}')
                reports.append({'sig': sig, 'known': True, 'runs': len(e['runs'])})
                continue
        for case, v, before in e['cases']:
            if fails_with(mod, case, sig):
                chosen = (case, v)
                break
            unreproducible += 1
        if chosen is None:
            # seen only inside a worker that had executed other runs before: look for the earlier runs that matter
            for case, v, before in e['cases'][:3]:
                if not before:
                    continue
                prelude = find_prelude(mod, master, tier, before, case, sig, min(min_deadline, time.time() + 120))
                if prelude:
                    chosen = (case, v)
                    break
        if chosen is None:
            reports.append({'sig': sig, 'known': False, 'runs': len(e['runs']), 'reproducible_in_isolation': False})
            continue
        if prelude:
            path, doc = write_replay(mod, chosen[0], chosen[1], tag=core.digest(sig)[:6], prelude=prelude)
            repro, rout = replay_in_fresh_process(path)
            if not repro:
                print(f'HARNESS-ERROR property={prop} replay {path} (with prelude) did not reproduce in a fresh process:\n{rout[-1500:]}')
                return EXIT_HARNESS
            print(f'VIOLATION property={prop} replay={path}')
            print(f'  signature: {sig}')
            print(f'  needs {len(prelude)} earlier execution(s) in the same process (prelude in the replay file): state is carried '
                  f'from one execution to the next')
            print(f'  detail: {core.jdump(doc["violation"])[:1200]}')
            exit_code = EXIT_VIOLATION
            reports.append({'sig': sig, 'known': False, 'runs': len(e['runs']), 'replay': path, 'prelude_cases': len(prelude)})
            continue
        # full budget for the first signatures, a token one for the tail (cascades of one defect)
        nth = sum(1 for r_ in reports if r_.get('replay') or r_.get('known'))
        small = minimise(mod, chosen[0], sig, budget=400 if nth < 2 else (120 if nth < 4 else 30), deadline=min_deadline)
        path, doc = write_replay(mod, small, chosen[1], tag=core.digest(sig)[:6])
        repro, rout = replay_in_fresh_process(path)
        known = match_known(prop, sig)
        if not repro:
            print(f'HARNESS-ERROR property={prop} replay {path} did not reproduce in a fresh process:\n{rout[-1500:]}')
            return EXIT_HARNESS
        if known:
            os.remove(path)
            print(f'KNOWN-FINDING: property={prop} {known["what"]}')
            reports.append({'sig': sig, 'known': True, 'runs': len(e['runs'])})
        else:
            print(f'VIOLATION property={prop} replay={path}')
            print(f'  signature: {sig}')
            print(f'  detail: {core.jdump(doc["violation"])[:1500]}')
            print(f'  failing runs in this batch: {len(e["runs"])} (first run index {e["runs"][0]}); seed={master}')
            exit_code = EXIT_VIOLATION
            reports.append({'sig': sig, 'known': False, 'runs': len(e['runs']), 'replay': path})
    if not ok:
        # runs are deterministic in isolation but depend on what the process executed before
        if exit_code == EXIT_VIOLATION:
            print(f'NOTE property={prop}: run outcomes depend on their position in the batch (state carried from one '
                  f'execution to the next inside a process) - consistent with the violation(s) above; {core.jdump(st)}')
        else:
            found = None
            if getattr(mod, 'CROSS_EXECUTION_IS_VIOLATION', False):
                for r_ in st.get('position_dependent_runs', [])[:3]:
                    found = find_cross_execution_dependence(mod, master, tier, st_runs, r_, time.time() + 150)
                    if found:
                        break
                if not found:
                    for r_ in iso['position_dependent_runs'][:4]:
                        hist = iso_hist.get(r_) or []
                        for k_ in (1, 4, 16, 96):
                            found = find_cross_execution_dependence(mod, master, tier, hist[-k_:] + [r_], r_, time.time() + 120)
                            if found or k_ >= len(hist):
                                break
                        if found:
                            break
            if not found:
                print(f'HARNESS-NONDETERMINISM property={prop} runs depend on batch position but no violation reproduces in '
                      f'isolation: {core.jdump(st)}')
                return EXIT_HARNESS
            pre, case_, alone, after = found
            first = next((i for i, (x, y) in enumerate(zip(alone['log'], after['log'])) if x != y), None)
            sig = f'{prop}:cross-execution-dependence'
            v = {'oracle': 'cross-execution-dependence', 'sig': sig,
                 'what': 'every operation of this case agrees with its fresh reference both times, yet the same case gives different '
                         'results alone and after the prelude cases were executed in the same process: results depend on earlier '
                         'executions (state kept at module or class level)',
                 'first_differing_event': {'alone': alone['log'][first] if first is not None else None,
                                           'after_prelude': after['log'][first] if first is not None else None}}
            os.makedirs(REPLAY_DIR, exist_ok=True)
            path = os.path.join(REPLAY_DIR, f'{prop}-{master}-{case_.get("run")}-{core.digest(sig)[:6]}.json')
            with open(path, 'w') as f:
                json.dump({'property': prop, 'kind': 'cross_execution', 'seed': master, 'run': case_.get('run'), 'tier': tier,
                           'violation': v, 'digest': after['digest'], 'digest_alone': alone['digest'], 'case': case_,
                           'prelude': pre, 'log': after['log'][-120:], 'log_alone': alone['log'][-120:],
                           'how_to_replay': f'/venv/bin/python /verif/run_check.py --replay <this file>'},
                          f, indent=1, sort_keys=True, default=str)
            repro, rout = replay_in_fresh_process(path)
            if not repro:
                print(f'HARNESS-ERROR property={prop} cross-execution replay {path} did not reproduce in a fresh process:\n{rout[-1200:]}')
                return EXIT_HARNESS
            print(f'VIOLATION property={prop} replay={path}')
            print(f'  signature: {sig}')
            print(f'  the case of run {case_.get("run")} gives different results alone and after {len(pre)} earlier execution(s) in the '
                  f'same process (prelude in the replay file)')
            print(f'  first differing event: {core.jdump(v["first_differing_event"])[:1000]}')
            exit_code = EXIT_VIOLATION
            reports.append({'sig': sig, 'known': False, 'runs': len(st.get('position_dependent_runs', [])), 'replay': path,
                            'prelude_cases': len(pre)})
    elif unreproducible and exit_code == EXIT_OK and any(not r.get('reproducible_in_isolation', True) for r in reports):
        print(f'HARNESS-ERROR property={prop} {unreproducible} failing run(s) did not reproduce in a clean process although '
              f'the determinism self-test passed')
        return EXIT_HARNESS

    wall = time.time() - t0
    stats = dict(agg['stats'])
    probes = {k[len('probes.'):]: v for k, v in stats.items() if k.startswith('probes.')}
    for name in getattr(mod, 'PROBES', ()):
        probes.setdefault(name, 0)
    for name, n in sorted(probes.items()):
        if n == 0:
            print(f'WARNING probe={name} never hit')
    faults = {k[len('faults_fired.'):]: v for k, v in stats.items() if k.startswith('faults_fired.')}
    evidence = {
        'property_id': prop,
        'tier': tier,
        'seed': master,
        'level': 'exploration',
        'coverage': {
            'evaluations': agg['runs'],
            'distinct_nontrivial': len(nontrivial),
            'rule': mod.RULE,
            'samples': agg['samples'][:3],
            'runs_planned': nruns,
            'runs_completed': agg['runs'],
            'wall_cap_hit': capped,
            'distinct_run_digests': len(all_digests),
            'runs_per_hour': int(agg['runs'] / max(wall, 1e-6) * 3600),
            'simulated_time': 'beanquery has no timers or clock-dependent behaviour; simulated time is reported as logical steps',
            'logical_steps': stats.get('steps', 0),
            'operations': stats.get('ops', 0),
            'context_switches': stats.get('switches', 0),
            'faults_fired': faults,
            'fault_kinds_not_injected': COMPONENTS['absent_in_beanquery_not_simulated'],
            'probes': probes,
            'other_counters': {k: v for k, v in stats.items()
                               if not k.startswith(('probes.', 'faults_fired.', 'pairs.')) and k not in ('steps', 'ops', 'switches')},
            'distinct_switch_site_pairs': sum(1 for k in stats if k.startswith('pairs.')),
            'switch_site_pairs_most_frequent': dict(sorted(((k[6:], v) for k, v in stats.items() if k.startswith('pairs.')),
                                                           key=lambda kv: -kv[1])[:12]),
            'seeds_per_hour': int(agg['runs'] / max(wall, 1e-6) * 3600),
            'components': COMPONENTS,
            'determinism_selftest': st,
            'violations_reported': reports,
            'workers': workers,
            'tree': core.repo_dir(),
        },
        'assumptions': list(getattr(mod, 'ASSUMPTIONS', [])) + [
            'sampling: a clean batch is evidence, not proof',
            'beancount core (loader, Inventory, summarize, printer) is a trusted dependency',
            'pre-emption granularity is the harness yield sites (quick) or Python lines (thorough), never inside C code',
        ],
        'wall_s': round(wall, 2),
        'violations': sum(1 for r in reports if not r['known']),
    }
    os.makedirs(EVIDENCE_DIR, exist_ok=True)
    with open(os.path.join(EVIDENCE_DIR, f'{prop}.json'), 'w') as f:
        json.dump(evidence, f, indent=1, sort_keys=True, default=str)
    print(f'{prop} {tier}: runs={agg["runs"]}/{nruns} distinct_nontrivial={len(nontrivial)} '
          f'wall={wall:.1f}s violations={evidence["violations"]} capped={capped} seed={master}')
    if capped and exit_code == EXIT_OK:
        print(f'NOTE wall cap {wall_cap_s}s hit: runs completed < runs planned (recorded in evidence)')
    return exit_code
