"""C09 - parameters, constant folding and history independence of execution.

Seeded execution histories on one shared connection: fresh-text executions,
parsed statements kept and re-executed with other parameters, executemany,
nested (re-entrant) executions in the middle of a row, table (un)registration,
and failing / aborted executions as faults.  Every operation is judged against
the same call in a fresh world (new connection, fresh parse, nothing executed
before it).
"""

import copy

from . import core, sim, stmts, world
from .core import canon_rows, INJECTED

core.bootstrap()

import beanquery  # noqa: E402

PROP = 'C09'
D = world.D
# results that depend on what the process executed earlier violate this property even when every operation
# agrees with its in-process reference (see driver.find_cross_execution_dependence)
CROSS_EXECUTION_IS_VIOLATION = True
RULE = ('one run = one seeded history (<= 3 clients x <= 25 ops, explicit schedule) of exec_text / parse / exec_ast / '
        'executemany / fold-pair / register / unregister operations on one shared connection over a generated ledger and '
        'harness tables, with nested re-entrant executions and injected faults (storage error mid-scan, user-function error, '
        'cancellation, failing statements). non-trivial = at least one parsed statement executed more than once or an '
        'executemany with >= 2 parameter sets or a nested execution, and >= 2 different statements executed; distinct = '
        'distinct digest of (ops, schedule, outcomes).')
ASSUMPTIONS = [
    'oracle (a): the same statement text with the same parameters on a fresh connection over an independently loaded copy of the same ledger; both sides run the same evaluator, so pure-semantics changes move both',
    'rider (b): literal twin and fold/unfold pair relate two programs, not two histories; they ride on the history machinery and are labelled riders',
    'an operation hit by an injected fault may raise the injected exception or a DB-API Error, or return the reference result - never different data',
    'today(), joinstr() and repr() are excluded from workloads (clock, hash-order, addresses)',
]
PROBES = ['via_run_query', 'cursor_reused', 'params_container_reused_in_place', 'table_content_replaced', 'ledger_replaced', 'ast_reexecuted', 'ast_reexecuted_after_failure', 'ast_reexecuted_other_params', 'executemany_multi',
          'nested_execution', 'nested_same_ast', 'late_table_retry', 'positional_ge2', 'named_repeated', 'placeholder_in_subquery',
          'placeholder_in_order_by', 'fault_then_execute', 'fold_pair_compared', 'literal_twin_compared', 'from_clause_then_plain',
          'balance_stmt_nested_in_balance_stmt']

T0_COLS = [('a', 'int'), ('b', 'dec'), ('c', 'str'), ('d', 'date'), ('e', 'bool')]

# (template, slot types, tags).  {k} slots are numbered in textual order.
PARAM_TEMPLATES = [
    ('SELECT a, a - {0} AS x FROM #t0 WHERE a > {1}', ['int', 'int'], ()),
    ('SELECT {0} - a AS x, {1} AS s FROM #t0 WHERE {2} - a > 0', ['int', 'str', 'int'], ()),
    ('SELECT {0} - {1} AS x, {2} AS s FROM #t0 LIMIT 2', ['int', 'int', 'str'], ()),
    ('SELECT c, b / {0} AS q FROM #t0 WHERE c != {1} ORDER BY a - {2} DESC', ['dec', 'str', 'int'], ('order',)),
    ('SELECT a FROM #t0 ORDER BY a % {0}, a DESC', ['pint'], ('order',)),
    ('SELECT a FROM #t0 WHERE a IN (SELECT a FROM #t0 WHERE a < {0}) AND a >= {1}', ['int', 'int'], ('subq',)),
    ('SELECT x FROM (SELECT a - {0} AS x FROM #t0 WHERE a > {1}) WHERE x < {2}', ['int', 'int', 'int'], ('subq',)),
    ('SELECT date, account, number WHERE date >= {0} AND account ~ {1}', ['date', 'acct'], ()),
    ('SELECT account, sum(number) AS s WHERE number > {0} GROUP BY account HAVING count(number) > {1}', ['dec', 'int'], ()),
    ('SELECT a FROM #t0 WHERE c IN {0}', ['strlist'], ()),
    ('SELECT a, length({0}) AS n FROM #t0 WHERE c NOT IN {0} OR c IN {1}', ['strlist', 'strlist'], ()),
    ('SELECT {0} AS n, a FROM #t0', ['null'], ()),
    ('SELECT a, b FROM #t0 WHERE b > {0} AND d < {1}', ['dec', 'date'], ()),
    ('SELECT date_add({0}, {1}) AS x, a FROM #t0 LIMIT 3', ['date', 'int'], ()),
    ('SELECT account, balance, position WHERE number > {0}', ['dec'], ('bal',)),
    ('SELECT account, units(balance) AS u, balance WHERE number > {0} AND account ~ {1}', ['dec', 'acct'], ('bal',)),
    ('SELECT date, account, position FROM year >= {0} CLOSE ON 2020-03-01 WHERE number != {1}', ['year', 'dec'], ('from',)),
    ('SELECT account, sum(position) AS s FROM date >= {0} OPEN ON 2020-02-01 GROUP BY account', ['date'], ('from',)),
    ('SELECT a % {0} AS m, count(a) AS n FROM #t0 GROUP BY m ORDER BY m', ['pint'], ()),
    ('SELECT substr(c, {0}, {1}) AS s, upper({2}) AS u FROM #t0', ['pint', 'pint', 'str'], ()),
    ('SELECT a FROM #t0 WHERE a BETWEEN {0} AND {1}', ['int', 'int'], ()),
    ('SELECT verif_reenter(a, 0) AS r, a - {0} AS x FROM #t0 WHERE a < {1}', ['int', 'int'], ('reenter',)),
    ('SELECT balance AS b1, verif_reenter(number, 0) - {0} AS r, balance AS b2 WHERE number > {1}', ['dec', 'dec'], ('bal', 'reenter')),
    ('SELECT verif_fault(a, 0) AS f, {0} - a AS x FROM #t0', ['int'], ('fault',)),
    ('SELECT a, a * {0} AS y FROM #t1 WHERE a != {1}', ['int', 'int'], ('late',)),
    ('SELECT {0} AS p, {0} AS q, a - {1} AS r, {1} - a AS s FROM #t0', ['int', 'int'], ('repeat',)),
    # the same pattern text in case-insensitive (~, !~) and case-sensitive (grep, grepn, subst) constructs
    ('SELECT account, grep({0}, account) AS g, subst({0}, "X", account) AS s WHERE number > 0', ['lpat'], ('regex',)),
    ('SELECT account, number WHERE account ~ {0} AND narration !~ {1}', ['lpat', 'lpat'], ('regex',)),
    ('SELECT narration, grepn({0}, narration, 0) AS g, payee WHERE payee ~ {1} OR narration ~ {0}', ['lpat', 'lpat'], ('regex',)),
    ('SELECT account, has_account(account) AS h, findfirst({0}, tags) AS t WHERE account ~ {0}', ['lpat'], ('regex',)),
    # targets without AS: their name is their source text, so two placeholder targets may share a name
    ('SELECT a, a * {0}, a * {1} FROM #t0 ORDER BY 3, 1', ['int', 'int'], ('dupnames',)),
    ('SELECT {0}, {1}, a FROM #t0 ORDER BY 2 DESC, 3', ['int', 'int'], ('dupnames',)),
    ('SELECT * FROM (SELECT a, a * {0}, a - {1} FROM #t0)', ['int', 'int'], ('dupnames', 'subq')),
    ('SELECT * FROM (SELECT a, a * {0}, a * {1} FROM #t0)', ['int', 'int'], ('dupnames', 'dupsubq', 'subq')),
    ('SELECT {0} AS v, b + {1} AS w FROM #t0 LIMIT 3', ['dec', 'dec'], ('typed',)),
    ('SELECT {0} AS v, a FROM #t0 WHERE a < {1}', ['int', 'int'], ('typed',)),
    ('SELECT {0} AS flag, a FROM #t0 WHERE e OR {1}', ['bool', 'bool'], ('typed',)),
    ('SELECT coalesce(e, {0}) AS f, NOT {1} AS g, a FROM #t0', ['bool', 'bool'], ('typed',)),
    # textual order differs from the order in which the compiler visits the clauses (FROM first, ORDER BY last)
    ('SELECT {0} AS k, x FROM (SELECT a AS x FROM #t0 WHERE a > {1}) WHERE x < {2}', ['int', 'int', 'int'], ('subq', 'clauseorder')),
    ('SELECT {0} AS tag, account, number FROM year = {1} WHERE number > {2}', ['str', 'year', 'dec'], ('from', 'clauseorder')),
    ('SELECT {0} - a AS x, count(a) AS n FROM #t0 WHERE a < {1} GROUP BY x HAVING count(a) > {2} ORDER BY {3} - x', ['int', 'int', 'int', 'int'],
     ('order', 'clauseorder')),
    ('SELECT a, {0} AS k FROM #t0 WHERE a IN (SELECT a - {1} FROM #t0 WHERE a > {2}) ORDER BY a % {3}, a', ['str', 'int', 'int', 'pint'],
     ('subq', 'order', 'clauseorder')),
    ('SELECT entry_meta({0}) AS m, account, {1} AS k WHERE number > {2}', ['metakey', 'int', 'dec'], ('clauseorder',)),
    ('SELECT any_meta({0}) AS m, {1} AS k, meta({2}) AS n WHERE account ~ {3}', ['metakey', 'str', 'metakey', 'acct'], ('clauseorder',)),
]

PLAIN = [
    ('SELECT a, b, c FROM #t0 ORDER BY c, a', ()),
    ('SELECT DISTINCT e FROM #t0', ()),
    ('SELECT e, count(a) AS n, sum(b) AS s FROM #t0 GROUP BY e', ()),
    ('SELECT account, sum(position) AS s GROUP BY account ORDER BY account', ()),
    ('SELECT date, account, position, balance', ('bal',)),
    ('SELECT account, balance, cost(balance) AS c, balance AS b2 WHERE account ~ "Assets"', ('bal',)),
    ('SELECT verif_reenter(balance, 0) AS r, account, balance', ('bal', 'reenter')),
    ('SELECT balance AS b1, verif_reenter(account, 0) AS r, balance AS b2', ('bal', 'reenter')),
    ('SELECT account, units(balance) AS u WHERE verif_reenter(number, 0) > 0 AND NOT empty(balance)', ('bal', 'reenter')),
    ('SELECT account, position FROM year = 2020 OPEN ON 2020-02-01 CLOSE ON 2020-04-01 CLEAR', ('from',)),
    ('SELECT account, sum(position) AS s FROM CLOSE ON 2020-02-15 GROUP BY account', ('from',)),
    ('BALANCES', ()),
    ('BALANCES AT cost FROM year = 2020', ('from',)),
    ('JOURNAL "Assets:Bank"', ('bal',)),
    ('SELECT date, type FROM #entries WHERE type != "open"', ()),
    ('SELECT date, narration FROM #transactions', ()),
    ('SELECT account, currency, sum(number) AS n GROUP BY account, currency PIVOT BY account, currency', ()),
    ('SELECT a FROM #t0 WHERE a IN (SELECT a FROM #t1)', ('late',)),
    ('SELECT account, first(date) AS f, last(date) AS l, min(number) AS mn, max(number) AS mx GROUP BY account', ()),
    ('SELECT verif_fault(position, 0) AS p, account', ('fault',)),
    ('SELECT account, position WHERE account IN (SELECT account FROM #postings WHERE NOT empty(balance))', ('bal', 'subq')),
    ('SELECT date, flag, payee, narration, tags, links, account, other_accounts, number, currency, cost_number, cost_currency, '
     'cost_date, position, price, weight', ('wide',)),
    ('SELECT account, weight, other_accounts WHERE number < 0', ('wide',)),
    ('SELECT weight, other_accounts, account WHERE date > 2020-01-20', ('wide',)),
    # FROM-subqueries with different target names, SELECT * over them, names that only another subquery has
    ('SELECT * FROM (SELECT a AS x, b AS y FROM #t0)', ('subq', 'subqnames')),
    ('SELECT * FROM (SELECT c AS name, a AS n FROM #t0 WHERE a > 1)', ('subq', 'subqnames')),
    ('SELECT * FROM (SELECT account AS acc, sum(number) AS total GROUP BY account)', ('subq', 'subqnames')),
    ('SELECT who, n FROM (SELECT c AS who, a AS n FROM #t0) WHERE n >= 0', ('subq', 'subqnames')),
    ('SELECT x FROM (SELECT a AS y FROM #t0)', ('subq', 'subqnames', 'bad')),
    ('SELECT name FROM (SELECT a AS x FROM #t0)', ('subq', 'subqnames', 'bad')),
    ('SELECT acc FROM #', ('subqnames', 'bad')),
    # per-connection account index: lookups of accounts that were never opened, then the accounts table itself
    ('SELECT account, open_date(parent(account)) AS o, close_date(root(account, 1)) AS c, open_date(account) AS oa', ('acct',)),
    ('SELECT account, open.date AS od FROM #accounts', ('acct',)),
    ('SELECT count(account) AS n FROM #accounts', ('acct',)),
    ('SELECT open_date("Assets:Nowhere") AS o, close_date("Expenses:Typo") AS c, account LIMIT 2', ('acct',)),
    ("SELECT a, ('x', 'y') AS wanted, ('USD', 'EUR', 'USD') AS curs FROM #t0", ('listconst',)),
    ("SELECT account, ('Assets', 'Income') AS roots WHERE number > 0", ('listconst',)),
    ('SELECT nosuch FROM #t0', ('bad',)),
    ('SELECT a FROM', ('bad',)),
    ('SELECT sum(a), a FROM #t0 WHERE sum(a) > 0', ('bad',)),
]

FOLD_EXPRS = [
    ('{0} + {1} * {2}', ['int', 'int', 'int']), ('{0} - {1} - {2}', ['int', 'int', 'int']), ('{0} / {1}', ['int', 'int']),
    ('{0} % {1}', ['int', 'int']), ('-{0} + {1}', ['int', 'dec']), ('{0} * {1} - {2}', ['dec', 'int', 'dec']),
    ('{0} / {1}', ['dec', 'dec']), ('{0} % {1}', ['dec', 'int']), ('round({0} / {1}, {2})', ['dec', 'dec', 'pint']),
    ('abs({0} - {1})', ['dec', 'dec']), ('safediv({0}, {1})', ['dec', 'dec']), ('neg({0}) * {1}', ['dec', 'int']),
    ('{0} < {1}', ['int', 'dec']), ('{0} = {1}', ['str', 'str']), ('{0} != {1} AND {2} >= {3}', ['str', 'str', 'int', 'int']),
    ('NOT {0} OR {1} < {2}', ['bool', 'date', 'date']), ('upper({0})', ['str']), ('lower(upper({0}))', ['str']),
    ('length({0}) + {1}', ['str', 'int']), ('substr({0}, {1}, {2})', ['str', 'pint', 'pint']), ('maxwidth({0}, {1})', ['str', 'pint']),
    ('{0} ~ {1}', ['str', 'str']), ('year({0}) * 100 + month({0})', ['date']), ('day({0}) - {1}', ['date', 'int']),
    ('quarter({0})', ['date']), ('weekday({0})', ['date']), ('date_add({0}, {1})', ['date', 'int']),
    ('date_diff({0}, {1})', ['date', 'date']), ('{0} - {1}', ['date', 'date']), ('{0} + {1}', ['date', 'int']),
    ('yearmonth({0})', ['date']), ('str({0})', ['int']), ('decimal({0}) / {1}', ['int', 'int']), ('bool({0})', ['int']),
    ('int({0}) + {1}', ['dec', 'int']), ('coalesce({0}, {1})', ['int', 'int']), ('{0} IN (1, 2, 3)', ['int']),
    ('{0} BETWEEN {1} AND {2}', ['int', 'int', 'int']), ('root({0}, {1})', ['acct', 'pint']), ('leaf({0})', ['acct']),
    ('coalesce({0} / {1}, {2})', ['int', 'int', 'dec']), ('coalesce({0} % {1}, {2})', ['int', 'int', 'int']),
    ('coalesce(safediv({0}, {1}), {2})', ['dec', 'dec', 'dec']), ('coalesce({0} % {1}, {2}) + {3}', ['dec', 'int', 'dec', 'int']),
    ('parent({0})', ['acct']), ('date({0}, {1}, {2})', ['year', 'month', 'pday']), ('{0} AND {1} OR NOT {2}', ['bool', 'bool', 'bool']),
    # boolean connectives do not depend on operand types, so NULL constants are safe here (three-valued logic)
    ('{0} AND {1}', ['nbool', 'nbool']), ('{0} OR {1}', ['nbool', 'nbool']), ('{0} AND {1} AND {2}', ['nbool', 'nbool', 'nbool']),
    ('{0} OR {1} OR {2}', ['nbool', 'nbool', 'nbool']), ('NOT ({0} AND {1}) OR {2}', ['nbool', 'nbool', 'nbool']),
    ('({0} OR {1}) AND NOT {2}', ['nbool', 'nbool', 'nbool']), ('{0} AND ({1} < {2})', ['nbool', 'int', 'int']),
]


def gen_slot(rng, t):
    if t == 'pint':
        return rng.choice([1, 2, 3, 4, 7])
    if t == 'acct':
        return rng.choice(['Assets', 'Bank', 'Expenses', 'Assets:Bank:Checking', 'Income', 'Broker', 'o'])
    if t == 'year':
        return rng.choice([2019, 2020, 2021])
    if t == 'month':
        return rng.randint(1, 12)
    if t == 'pday':
        return rng.randint(1, 28)
    if t == 'strlist':
        v = rng.sample(['a', 'b', 'abc', 'zz', 'x y', 'USD'], rng.randint(1, 3))
        if rng.random() < 0.4:
            v = v + [rng.choice(v)]          # a list with a repeated element is a legal parameter
            rng.shuffle(v)
        return v
    if t == 'null':
        return None
    if t == 'lpat':
        return rng.choice(['bank', 'assets', 'food', 'cash', 'rent', 'lunch', 'cafe', 'trip', 'b', 'Bank'])
    if t == 'metakey':
        return rng.choice(['lineno', 'nosuchkey', 'filename'])
    if t == 'nbool':
        return rng.choice([True, False, None])
    if t == 'dec' and rng.random() < 0.25:
        # values that compare equal but are different BQL constants (exponent is part of the value)
        return rng.choice([D('1'), D('1.0'), D('1.00'), D('2'), D('2.0'), D('0'), D('0.0')])
    if t == 'int' and rng.random() < 0.2:
        return rng.choice([0, 1, 2])
    return world.gen_value(rng, t)


def twin(rng, v):
    """A value that is == v in Python but a different BQL constant (type or decimal exponent)."""
    import decimal
    if isinstance(v, bool):
        return int(v)
    if isinstance(v, int):
        return bool(v) if v in (0, 1) and rng.random() < 0.5 else decimal.Decimal(v)
    if isinstance(v, decimal.Decimal):
        return v.quantize(decimal.Decimal(1).scaleb(v.as_tuple().exponent - 1)) if rng.random() < 0.7 else (
            int(v) if v == v.to_integral_value() else v.quantize(decimal.Decimal(1).scaleb(v.as_tuple().exponent - 2)))
    return v


def twin_dec(rng, v):
    """Like twin() but type-preserving: only the exponent of a Decimal changes (2.0 -> 2.00)."""
    import decimal
    if isinstance(v, decimal.Decimal) and not isinstance(v, bool) and v.is_finite():
        return v.quantize(decimal.Decimal(1).scaleb(v.as_tuple().exponent - rng.choice([1, 2, 3])))
    return v


def base_type(t):
    return {'pint': 'int', 'acct': 'str', 'year': 'int', 'month': 'int', 'pday': 'int', 'nbool': 'bool', 'metakey': 'str', 'lpat': 'str'}.get(t, t)


def render(template, mode, vals, names=None):
    """Render a template: mode 'pos' -> %s, 'named' -> %(name)s, 'lit' -> literal."""
    out = template
    for k in range(len(vals)):
        if mode == 'pos':
            rep = '%s'
        elif mode == 'named':
            rep = f'%({names[k]})s'
        else:
            rep = world.literal(vals[k])
        out = out.replace('{%d}' % k, rep)
    return out


def slot_order(template, n):
    """Slots sorted by first textual position, with multiplicity."""
    occ = []
    for k in range(n):
        tok = '{%d}' % k
        i = template.find(tok)
        while i >= 0:
            occ.append((i, k))
            i = template.find(tok, i + 1)
    return [k for _, k in sorted(occ)]


def params_for(st, mode, vals):
    """(text, params) for executing statement `st` in `mode` with slot values."""
    t = st['t']
    n = len(st['types'])
    if n == 0 or mode == 'lit':
        return render(t, 'lit', vals), None
    if mode == 'pos':
        return render(t, 'pos', vals), [vals[k] for k in slot_order(t, n)]
    names = st['names']
    p = {}
    for k in range(n):
        p[names[k]] = vals[k]
    if st.get('extra_key'):
        p['unused_zz'] = 1
    return render(t, 'named', vals, names), p


# ---------------------------------------------------------------------------
# generation

def gen_vals(rng, st):
    vals = [gen_slot(rng, t) for t in st['types']]
    # repeated names must carry one value
    seen = {}
    for k, nm in enumerate(st.get('names', [])):
        if nm in seen:
            vals[k] = vals[seen[nm]]
        seen.setdefault(nm, k)
    return vals


def generate(rng, tier, run):
    big = tier == 'thorough'
    nrows = rng.randint(0, 8 if not big else 16)
    t0 = world.gen_table(rng, 't0', nrows=nrows, cols=T0_COLS, nullable=0.12)
    t1 = world.gen_table(rng, 't1', nrows=rng.randint(0, 5), cols=T0_COLS[:2], nullable=0.0)
    t1b = world.gen_table(rng, 't1', nrows=rng.randint(1, 6), cols=T0_COLS[:2], nullable=0.0)
    ledger2 = world.gen_ledger(rng, n_txn=rng.randint(1, 5))
    ledger = world.gen_ledger(rng, n_txn=rng.randint(2, 8 if not big else 14))
    # statement pool of this world
    pool = []
    for tpl, types_, tags in rng.sample(PARAM_TEMPLATES, rng.randint(3, 6)):
        n = len(types_)
        names = [f'p{k}' for k in range(n)]
        if rng.random() < 0.25:
            # parameter names are keys of the caller's mapping: case matters
            names = [rng.choice([f'P{k}', f'minDate{k}', f'Max_{k}', f'p{k}']) for k in range(n)]
        if n >= 2 and rng.random() < 0.3:
            # repeated name: only between slots of identical type
            cand = [(i, j) for i in range(n) for j in range(i + 1, n) if types_[i] == types_[j]]
            if cand:
                i, j = rng.choice(cand)
                names[j] = names[i]
        pool.append({'t': tpl, 'types': list(types_), 'tags': list(tags), 'names': names,
                     'extra_key': rng.random() < 0.2})
    plain = [p_ for p_ in PLAIN if (not p_[0].startswith(('BALANCES', 'JOURNAL')) or rng.random() < 0.3)
             and (p_[0] != 'SELECT a FROM' or rng.random() < 0.25)]
    for tpl, tags in rng.sample(plain, rng.randint(2, 5)):
        pool.append({'t': tpl, 'types': [], 'tags': list(tags), 'names': []})
    # a family of FROM clauses sharing later qualifiers while differing in earlier ones (and vice versa)
    if rng.random() < 0.5:
        opens = [None, 'OPEN ON 2020-01-15', 'OPEN ON 2020-02-01']
        closes = [None, 'CLOSE ON 2020-03-01', 'CLOSE ON 2020-04-01', 'CLOSE']
        clears = [None, 'CLEAR']
        combos = set()
        for _ in range(rng.randint(2, 4)):
            parts = [x for x in (rng.choice(opens), rng.choice(closes), rng.choice(clears)) if x]
            if parts:
                combos.add(' '.join(parts))
        for c_ in sorted(combos):
            pool.append({'t': f'SELECT account, sum(position) AS s, count(position) AS n FROM {c_} GROUP BY account ORDER BY account',
                         'types': [], 'tags': ['from', 'fromfam'], 'names': []})
    rng.shuffle(pool)
    param_idx = [i for i, s in enumerate(pool) if s['types']]
    nclients = rng.choice([1, 1, 2, 2, 3])
    maxops = 25 if not big else 40
    enable = {k: rng.random() < p for k, p in
              (('faults', 0.5), ('fold', 0.5), ('many', 0.6), ('ast', 0.85), ('tables', 0.5), ('badparams', 0.3),
               ('samecursor', 0.4))}
    clients = []
    nested = {}
    handle_no = 0
    for c in range(nclients):
        ops = []
        handles = []     # (handle id, stmt index, mode)
        for _ in range(rng.randint(2, maxops)):
            w = {'exec': 50, 'parse': 8 if (enable['ast'] and param_idx) else 0, 'exec_ast': 24 if handles else 0,
                 'executemany': 2 if (enable['many'] and param_idx) else 0, 'fold': 7 if enable['fold'] else 0,
                 'tables': 4 if enable['tables'] else 0}
            kind = rng.choices(list(w), list(w.values()))[0]
            if kind == 'parse':
                i = rng.choice(param_idx if rng.random() < 0.8 else range(len(pool)))
                mode = rng.choice(['pos', 'named']) if pool[i]['types'] else 'lit'
                ops.append({'op': 'parse', 'stmt': i, 'mode': mode, 'h': handle_no, 'real_parse': rng.random() < 0.1})
                handles.append((handle_no, i, mode))
                handle_no += 1
            elif kind == 'exec_ast':
                h, i, mode = rng.choice(handles)
                ops.append({'op': 'exec_ast', 'h': h, 'stmt': i, 'mode': mode,
                            'vals': [world.enc(v) for v in gen_vals(rng, pool[i])]})
            elif kind == 'executemany':
                i = rng.choice(param_idx)
                mode = rng.choice(['pos', 'named'])
                sets = [gen_vals(rng, pool[i]) for _ in range(rng.choice([0, 1, 2, 2, 3]))]
                if sets and rng.random() < 0.4:
                    # a parameter set that compares equal (Python ==) to its neighbour but is a different BQL value
                    at = rng.randrange(len(sets))
                    sets.insert(at + rng.choice([0, 1]), [twin(rng, v) for v in sets[at]])
                ops.append({'op': 'executemany', 'stmt': i, 'mode': mode, 'sets': [[world.enc(v) for v in s_] for s_ in sets]})
            elif kind == 'fold':
                tpl, types_ = rng.choice(FOLD_EXPRS)
                fvals = [gen_slot(rng, t) for t in types_]
                ops.append({'op': 'fold', 'expr': tpl, 'types': [base_type(t) for t in types_],
                            'vals': [world.enc(v) for v in fvals], 'real_parse': rng.random() < 0.05})
                if rng.random() < 0.35:
                    # the same constant expression again with operands that are == in Python but other BQL
                    # constants (decimal exponent): a value remembered per connection under an ==-key shows here
                    tvals = [twin_dec(rng, v) for v in fvals]
                    if [world.enc(v) for v in tvals] != ops[-1]['vals']:
                        ops.append({'op': 'fold', 'expr': tpl, 'types': ops[-1]['types'],
                                    'vals': [world.enc(v) for v in tvals], 'real_parse': False})
            elif kind == 'tables':
                ops.append(rng.choice([{'op': 'register', 'variant': 0}, {'op': 'register', 'variant': 1}, {'op': 'unregister'},
                                       {'op': 'attach', 'ledger': rng.choice([0, 1])}]))
            else:
                i = rng.randrange(len(pool))
                mode = rng.choice(['pos', 'named', 'lit']) if pool[i]['types'] else 'lit'
                ops.append({'op': 'exec', 'stmt': i, 'mode': mode, 'vals': [world.enc(v) for v in gen_vals(rng, pool[i])],
                            'real_parse': rng.random() < 0.04, 'twin_real': rng.random() < 0.02})
                if not pool[i]['types'] and rng.random() < 0.04 and '#t' not in pool[i]['t'] and 'verif_' not in pool[i]['t']:
                    ops[-1]['via'] = 'run_query'
                if enable['samecursor']:
                    # DB-API style: one long-lived cursor per client; optionally the same statement again with the
                    # caller's parameter container updated in place
                    ops[-1]['cursor'] = 'own'
                    if ops and len(ops) >= 2 and ops[-2].get('op') == 'exec' and rng.random() < 0.45:
                        prev = ops[-2]
                        ops[-1].pop('via', None)
                        ops[-1].update({'stmt': prev['stmt'], 'mode': prev['mode'], 'reuse_params': rng.random() < 0.7,
                                        'vals': [world.enc(v) for v in gen_vals(rng, pool[prev['stmt']])], 'real_parse': prev.get('real_parse', False)})
                if enable['badparams'] and pool[i]['types'] and mode != 'lit' and rng.random() < 0.15:
                    ops[-1]['badparams'] = rng.choice(['short', 'long', 'none', 'wrongkind'])
            op = ops[-1]
            if enable['faults'] and op['op'] in ('exec', 'exec_ast', 'executemany') and rng.random() < 0.12:
                tags = pool[op['stmt']]['tags']
                if 'fault' in tags:
                    op['fault'] = {'kind': rng.choice(['udf', 'cancel']), 'k': 0, 'n': rng.randint(0, 6)}
                else:
                    op['fault'] = {'kind': 'storage', 'table': rng.choice(['t0', 'postings']), 'row': rng.randint(0, 6),
                                   'depth': rng.choice([None, 0, 1])}
        clients.append({'ops': ops})
    # nested plan for verif_reenter(…, 0): one op executed in the middle of the outer row, at call `at`
    if any('reenter' in s['tags'] for s in pool):
        i = rng.randrange(len(pool))
        if 'reenter' in pool[i]['tags'] and rng.random() < 0.7:
            i = rng.randrange(len(pool))
        mode = rng.choice(['pos', 'named', 'lit']) if pool[i]['types'] else 'lit'
        nested = {'at': rng.choice([0, 0, 1, 2, 'all']),
                  'op': {'op': 'exec', 'stmt': i, 'mode': mode, 'vals': [world.enc(v) for v in gen_vals(rng, pool[i])],
                         'real_parse': False},
                  'same_ast': False}
        re_idx = [j for j, s_ in enumerate(pool) if 'reenter' in s_['tags'] and s_['types']]
        if re_idx and rng.random() < 0.25:
            # re-entrant use of the very same parsed statement: the outer exec_ast of handle h
            # runs the same AST again (with other parameters) in the middle of one of its rows
            j = rng.choice(re_idx)
            mode = rng.choice(['pos', 'named'])
            nested['same_ast'] = True
            nested['op'] = {'op': 'exec', 'stmt': j, 'mode': mode, 'vals': [world.enc(v) for v in gen_vals(rng, pool[j])],
                            'real_parse': False}
            ops = clients[0]['ops']
            at = rng.randint(0, len(ops))
            ops[at:at] = [{'op': 'parse', 'stmt': j, 'mode': mode, 'h': handle_no, 'real_parse': False}] + [
                {'op': 'exec_ast', 'h': handle_no, 'stmt': j, 'mode': mode,
                 'vals': [world.enc(v) for v in gen_vals(rng, pool[j])]} for _ in range(rng.randint(1, 3))]
    return {
        'world': {'ledger': ledger, 'ledger2': ledger2, 'tables': [t0], 'late': t1, 'late2': t1b, 'stmts': pool},
        'clients': clients,
        'nested': nested,
        'mutate_fetched': rng.random() < 0.3,
        'schedule': sim.interleave(rng, [len(c['ops']) for c in clients]),
    }


# ---------------------------------------------------------------------------
# execution

def run_stmt(conn, arg, params, cur=None):
    """Outcome of one Cursor.execute through the public API."""
    if cur is None:
        cur = conn.cursor()
    cur.execute(arg, params)
    return outcome_of(cur)


MUTATE_FETCHED = [False]


def outcome_of(cur):
    desc = cur.description
    rows = cur.fetchall()
    out = ('ok', [[c.name, core.type_name(c.datatype)] for c in desc], canon_rows(rows))
    if MUTATE_FETCHED[0]:
        # what was fetched belongs to the caller: it may sort or extend list-valued cells in place
        for r in rows:
            for cell in r:
                if isinstance(cell, list):
                    cell.sort()
                    cell.append('caller-added')
    return out


def guarded(fn):
    try:
        return fn()
    except core.HarnessError:
        raise
    except BaseException as e:
        return ('err', core.exc_class(e), None)


def execute(case, keep_log=False):
    W = case['world']
    pool = W['stmts']
    MUTATE_FETCHED[0] = bool(case.get('mutate_fetched'))
    log = core.EventLog(keep=keep_log)
    S = sim.OpSim(log)
    world.set_current(S)
    viols = []
    stats = {'ops': 0}
    try:
        conn = world.make_connection(W['ledger'], W['tables'], copy=0)
        entries0 = conn.tables['postings'].entries
        entries_repr0 = world.load_ledger(W['ledger'], 0)[3]
        late_registered = [None]      # None | 0 | 1: which variant of #t1 is registered
        cur_ledger = [0]
        ledgers = [W['ledger'], W.get('ledger2', W['ledger'])]
        refmemo = {}

        def late_spec():
            return W['late'] if late_registered[0] in (0, True) else W.get('late2', W['late'])

        def tableset():
            return W['tables'] + ([late_spec()] if late_registered[0] is not None else [])

        def reference(text, params, mk=None, how='text'):
            """The same call in a fresh world.  `mk` builds the AST when the statement is a
            literal rendering obtained by substitution (how='sub'); otherwise a fresh parse/clone of `text`."""
            key = (text, core.jdump(world.enc(params)) if params is not None else None, late_registered[0], how, cur_ledger[0])
            if key not in refmemo:
                with world.reference_mode():
                    rc = world.make_connection(ledgers[cur_ledger[0]], tableset(), copy=1)
                    refmemo[key] = guarded(lambda: run_stmt(rc, mk() if mk is not None else stmts.fresh_ast(text),
                                                            copy.deepcopy(params)))
            return refmemo[key]

        def violation(oracle, where, op, expected, observed, sigx=''):
            op = {k_: v_ for k_, v_ in op.items() if not callable(v_)}
            viols.append({'oracle': oracle, 'where': where, 'op': op, 'expected': expected, 'observed': observed,
                          'sig': f'C09:{oracle}:{op.get("op")}{sigx}'})

        handles = {}          # h -> {'ast':…, 'text':…, 'uses': n, 'failed': bool, 'last': params digest}
        executed_texts = set()
        flags = {'reuse': False, 'nested': False, 'many': False, 'fault_pending': False, 'late_failed': False,
                 'from_seen': False}
        active_bal = [0]

        def judge(op, where, text, params, got, fired):
            """History independence: in-history outcome == same call in a fresh world."""
            ref = reference(text, params, op.get('_mk'), op.get('_how', 'text'))
            if fired:
                # may fail, never wrong data
                if got[0] == 'err':
                    return
                if got != ref:
                    violation('faulted-op-wrong-data', where, op, brief(ref), brief(got))
                return
            if got[0] == 'err' and ref[0] == 'err':
                if got[1] != ref[1]:
                    violation('history-exception-class', where, op, ref[1], got[1])
                elif params is not None and op.get('_lit_text') and not op.get('badparams'):
                    # rider (b): the statement with the values written as literals works - so must this one
                    lit = reference(op['_lit_text'], None, op['_lit_mk'], 'sub')
                    if lit[0] == 'ok':
                        S.probes['literal_twin_compared'] += 1
                        violation('param-vs-literal', where, op, brief(lit), brief(got), ':fails')
                return
            if got != ref:
                violation('history', where, op, brief(ref), brief(got), sigx=':' + ('fails' if got[0] == 'err' else 'differs'))
                return
            # rider (b): literal twin
            if params is not None and got[0] == 'ok' and op.get('_lit_text'):
                if op.get('twin_real'):
                    lit = reference(op['_lit_text'], None)
                else:
                    lit = reference(op['_lit_text'], None, op['_lit_mk'], 'sub')
                S.probes['literal_twin_compared'] += 1
                a = ('ok', [d[1] for d in got[1]], got[2])
                b = ('ok', [d[1] for d in lit[1]], lit[2]) if lit[0] == 'ok' else lit
                if a != b:
                    tags_ = pool[op['stmt']]['tags'] if 'stmt' in op else []
                    violation('param-vs-literal', where, op, brief(lit), brief(got),
                              ':unaliased-duplicate-names-in-subquery' if 'dupsubq' in tags_ else '')

        def prepare(op):
            """(text, params) of an exec-type op; pristine parameter copy for the mutation check."""
            st = pool[op['stmt']]
            vals = [world.dec(v) for v in op.get('vals', [])]
            text, params = params_for(st, op.get('mode', 'lit'), vals)
            bp = op.get('badparams')
            if bp and params is not None:
                if bp == 'short':
                    params = params[:-1] if isinstance(params, list) else {k: v for k, v in list(params.items())[:-1]}
                elif bp == 'long':
                    params = params + [1] if isinstance(params, list) else params
                elif bp == 'none':
                    params = None
                elif bp == 'wrongkind':
                    params = {'p0': 1} if isinstance(params, list) else list(params.values())
            op['_lit_text'] = render(st['t'], 'lit', vals) if (st['types'] and not bp) else None
            if 'dupnames' in st['tags']:
                # unaliased targets are named after their source text: the literal form must really be parsed
                op['twin_real'] = True
                if op.get('mode', 'lit') == 'lit':
                    op['real_parse'] = True
            if st['types']:
                pos_text = render(st['t'], 'pos', vals)
                ordered = [vals[k] for k in slot_order(st['t'], len(st['types']))]
                op['_lit_mk'] = lambda: stmts.substituted(pos_text, ordered)
                if op.get('mode', 'lit') == 'lit' and not op.get('real_parse'):
                    op['_mk'] = op['_lit_mk']
                    op['_how'] = 'sub'
            tags = st['tags']
            if st['types']:
                order = slot_order(st['t'], len(st['types']))
                if op.get('mode') == 'pos' and len(order) >= 2:
                    S.probes['positional_ge2'] += 1
                if op.get('mode') == 'named' and len(set(st['names'])) < len(st['names']):
                    S.probes['named_repeated'] += 1
                if 'subq' in tags:
                    S.probes['placeholder_in_subquery'] += 1
                if 'order' in tags:
                    S.probes['placeholder_in_order_by'] += 1
            return st, text, params

        def note_exec(st, text):
            if flags['fault_pending']:
                S.probes['fault_then_execute'] += 1
                flags['fault_pending'] = False
            if 'from' in st['tags']:
                flags['from_seen'] = True
            elif flags['from_seen'] and not st['types'] and 'bad' not in st['tags']:
                S.probes['from_clause_then_plain'] += 1
            if 'late' in st['tags']:
                if late_registered[0] is None:
                    flags['late_failed'] = True
                elif flags['late_failed']:
                    S.probes['late_table_retry'] += 1
            executed_texts.add(st['t'])

        own_cursor = {}
        last_params = {}

        def do_exec(op, where, nested_same_ast=None, ci=None):
            st, text, params = prepare(op)
            note_exec(st, text)
            cur = None
            if op.get('cursor') == 'own' and ci is not None and nested_same_ast is None:
                cur = own_cursor.get(ci)
                if cur is None:
                    cur = own_cursor[ci] = conn.cursor()
                else:
                    S.probes['cursor_reused'] += 1
                prev = last_params.get(ci)
                if op.get('reuse_params') and prev is not None and params is not None and type(prev) is type(params) \
                        and not op.get('badparams'):
                    # the caller keeps one list/dict and overwrites its items between executions
                    if isinstance(prev, list) and len(prev) == len(params):
                        prev[:] = params
                        params = prev
                        S.probes['params_container_reused_in_place'] += 1
                    elif isinstance(prev, dict) and set(prev) == set(params):
                        prev.update(params)
                        params = prev
                        S.probes['params_container_reused_in_place'] += 1
                last_params[ci] = params
            pristine = copy.deepcopy(params)
            if nested_same_ast is not None:
                arg = nested_same_ast
            elif op.get('_mk') is not None:
                arg = op['_mk']()
            else:
                arg = stmts.for_execute(text, op.get('real_parse', False))
            isbal = 'bal' in st['tags']
            if isbal and active_bal[0] and S.reenter_depth:
                S.probes['balance_stmt_nested_in_balance_stmt'] += 1
            active_bal[0] += isbal
            if S.reenter_depth == 0:
                S.arm(op.get('fault'))
            fired0 = sum(S.fired.values())
            try:
                if op.get('via') == 'run_query' and params is None and nested_same_ast is None and not st['types'] \
                        and '#t' not in text and 'verif_' not in text:
                    # the convenience entry point: its own connection over the same entries
                    S.probes['via_run_query'] += 1
                    from beanquery import query as bq_query
                    ents = conn.tables['postings'].entries
                    opts = conn.tables['postings'].options

                    def via():
                        rt, rr = bq_query.run_query(ents, opts, text.replace('{', '{{').replace('}', '}}'))
                        return ('ok', [[c.name, core.type_name(c.datatype)] for c in rt], canon_rows(rr))
                    got = guarded(via)
                else:
                    got = guarded(lambda: run_stmt(conn, arg, params, cur))
            finally:
                active_bal[0] -= isbal
            if S.reenter_depth == 0:
                S.disarm()
            fired = sum(S.fired.values()) > fired0
            finish(op, where, text, params, pristine, got, fired)

        def finish(op, where, text, params, pristine, got, fired):
            if got[0] == 'err' and got[1] in ('SimStorageError', 'SimUdfError', 'SimCancel') and not fired:
                raise core.HarnessError(f'injected exception without a fired fault in {op}')
            if fired:
                flags['fault_pending'] = True
            log.add(where, op.get('op'), text, world.enc(params) if params is not None else None,
                    got[0], got[1] if got[0] == 'err' else core.digest(got)[:12], fired)
            if params != pristine:
                violation('params-mutated', where, op, repr(pristine), repr(params))
            judge(op, where, text, params, got, fired)

        # nested plan
        nested = case.get('nested') or {}
        calls = [0]
        outer = {'ast': None, 'stmt': None}

        def on_reenter():
            n = calls[0]
            calls[0] += 1
            if not nested or S.reenter_depth > 1:
                return
            if nested['at'] != 'all' and nested['at'] != n:
                return
            S.probes['nested_execution'] += 1
            flags['nested'] = True
            same = None
            if nested.get('same_ast') and outer['ast'] is not None and nested['op']['stmt'] == outer['stmt'] \
                    and nested['op'].get('mode') == outer.get('mode'):
                same = outer['ast']
                S.probes['nested_same_ast'] += 1
            do_exec(dict(nested['op']), f'nested@{n}', nested_same_ast=same)

        S.reenter_plan[0] = on_reenter

        order = sim.schedule_order(case.get('schedule', []), [len(c['ops']) for c in case['clients']])
        for (ci, oi) in order:
            op = dict(case['clients'][ci]['ops'][oi])
            where = f'c{ci}.{oi}'
            k = op['op']
            stats['ops'] += 1
            calls[0] = 0
            outer['ast'] = None
            if k == 'exec':
                do_exec(op, where, ci=ci)
            elif k == 'parse':
                st = pool[op['stmt']]
                vals0 = [None] * len(st['types'])
                text = render(st['t'], op['mode'], [0] * len(st['types']), st['names']) if st['types'] else st['t']
                try:
                    ast_ = conn.parse(text) if op.get('real_parse') else stmts.fresh_ast(text)
                except Exception as e:
                    log.add(where, 'parse', text, 'err', core.exc_class(e))
                    continue
                handles[op['h']] = {'ast': ast_, 'text': text, 'uses': 0, 'failed': False, 'last': None}
                log.add(where, 'parse', text, 'ok')
            elif k == 'exec_ast':
                h = handles.get(op['h'])
                if h is None:
                    log.add(where, 'exec_ast', 'no-handle')
                    continue
                st, text, params = prepare(op)
                note_exec(st, text)
                pristine = copy.deepcopy(params)
                if h['uses'] >= 1:
                    S.probes['ast_reexecuted'] += 1
                    flags['reuse'] = True
                    if h['failed']:
                        S.probes['ast_reexecuted_after_failure'] += 1
                    if h['last'] != core.jdump(world.enc(params)):
                        S.probes['ast_reexecuted_other_params'] += 1
                h['uses'] += 1
                h['last'] = core.jdump(world.enc(params))
                outer['ast'], outer['stmt'], outer['mode'] = h['ast'], op['stmt'], op['mode']
                isbal = 'bal' in st['tags']
                active_bal[0] += isbal
                S.arm(op.get('fault'))
                try:
                    got = guarded(lambda: run_stmt(conn, h['ast'], params))
                finally:
                    active_bal[0] -= isbal
                fired = S.disarm()
                if got[0] == 'err':
                    h['failed'] = True
                finish(op, where, text, params, pristine, got, fired)
            elif k == 'executemany':
                st = pool[op['stmt']]
                sets = [[world.dec(v) for v in s] for s in op['sets']]
                tp = [params_for(st, op['mode'], vals) for vals in sets]
                text = tp[0][0] if tp else params_for(st, op['mode'], [0] * len(st['types']))[0]
                plist = [p for _, p in tp]
                note_exec(st, text)
                pristine = copy.deepcopy(plist)
                if len(plist) >= 2:
                    S.probes['executemany_multi'] += 1
                    flags['many'] = True
                cur = conn.cursor()
                S.arm(op.get('fault'))
                isbal = 'bal' in st['tags']
                active_bal[0] += isbal
                try:
                    got = guarded(lambda: (cur.executemany(text, plist), outcome_of(cur) if plist else ('ok', None, None))[1])
                finally:
                    active_bal[0] -= isbal
                fired = S.disarm()
                log.add(where, 'executemany', text, world.enc(plist), got[0],
                        got[1] if got[0] == 'err' else core.digest(got)[:12], fired)
                if plist != pristine:
                    violation('params-mutated', where, op, repr(pristine), repr(plist))
                if fired:
                    flags['fault_pending'] = True
                if plist:
                    # expected: the first parameter set that fails in a fresh world decides; else the last set's result
                    exp = None
                    for p in plist:
                        r_ = reference(text, p)
                        exp = r_
                        if r_[0] == 'err':
                            break
                    if fired:
                        if got[0] != 'err' and got != exp:
                            violation('faulted-op-wrong-data', where, op, brief(exp), brief(got))
                    elif got[0] == 'err' and exp[0] == 'err':
                        if got[1] != exp[1]:
                            violation('history-exception-class', where, op, exp[1], got[1])
                    elif got != exp:
                        violation('history', where, op, brief(exp), brief(got),
                                  sigx=':' + ('fails' if got[0] == 'err' else 'differs'))
            elif k == 'fold':
                vals = [world.dec(v) for v in op['vals']]
                n = len(vals)
                ktab = {'name': 'k', 'cols': [[f'k{i}', op['types'][i]] for i in range(n)],
                        'rows': [[world.enc(v) for v in vals]] * 2}
                conn.tables['k'] = world.SimTable(ktab)
                folded = 'SELECT ' + render(op['expr'], 'lit', vals) + ' AS v FROM #k'
                unfolded = 'SELECT ' + op['expr'].format(*[f'k{i}' for i in range(n)]) + ' AS v FROM #k'
                ftpl = 'SELECT ' + render(op['expr'], 'pos', vals) + ' AS v FROM #k'
                fvals = [vals[j] for j in slot_order(op['expr'], n)]
                farg = folded if op.get('real_parse') else stmts.substituted(ftpl, fvals)
                a = guarded(lambda: run_stmt(conn, farg, None))
                b = guarded(lambda: run_stmt(conn, stmts.for_execute(unfolded, False), None))
                del conn.tables['k']
                log.add(where, 'fold', folded, a[0], a[1] if a[0] == 'err' else core.digest(a)[:12],
                        b[0], b[1] if b[0] == 'err' else core.digest(b)[:12])
                if a[0] == 'ok' and b[0] == 'ok':
                    S.probes['fold_pair_compared'] += 1
                    if ([d[1] for d in a[1]], a[2]) != ([d[1] for d in b[1]], b[2]):
                        violation('fold-vs-unfolded', where, op, brief(b), brief(a))
                else:
                    S.probes['fold_pair_skipped_error'] += 1
            elif k == 'register':
                v = op.get('variant', 0)
                if late_registered[0] is not None and late_registered[0] != v:
                    S.probes['table_content_replaced'] += 1
                late_registered[0] = v
                conn.tables['t1'] = world.SimTable(late_spec())
                log.add(where, 'register', v)
            elif k == 'unregister':
                conn.tables.pop('t1', None)
                late_registered[0] = None
                log.add(where, 'unregister')
            elif k == 'attach':
                # the data changes under the same connection: every later result must reflect the new ledger
                li = op.get('ledger', 0) if 'ledger2' in W else 0
                if li != cur_ledger[0]:
                    S.probes['ledger_replaced'] += 1
                cur_ledger[0] = li
                e2, err2, opt2, _ = world.load_ledger(ledgers[li], 0)
                conn.attach('beancount:', entries=e2, errors=err2, options=opt2)
                conn.tables['postings'] = world.SimPostings(e2, opt2)
                conn.tables['entries'] = world.SimEntries(e2, opt2)
                log.add(where, 'attach', li)
            else:
                raise core.HarnessError(k)

        # executing never mutates the source data
        if repr(entries0) != entries_repr0:
            violation('source-data-mutated', 'end', {'op': 'end'}, 'entries unchanged', 'entries changed')
        if 'ledger2' in W:
            e2, _, _, r2 = world.load_ledger(W['ledger2'], 0)
            if repr(e2) != r2:
                violation('source-data-mutated', 'end', {'op': 'end'}, 'entries unchanged', 'entries of second ledger changed')
        t0live = conn.tables.get('t0')
        if t0live is not None and t0live.rows != [tuple(world.dec(x) for x in r) for r in W['tables'][0]['rows']]:
            violation('source-data-mutated', 'end', {'op': 'end'}, 'table rows unchanged', 'table rows changed')
        with world.reference_mode():
            expected_tables = set(world.make_connection(ledgers[cur_ledger[0]], tableset(), copy=1).tables)
        if set(conn.tables) != expected_tables:
            violation('tables-changed', 'end', {'op': 'end'}, sorted(expected_tables), sorted(conn.tables))
        stats['nontrivial'] = bool((flags['reuse'] or flags['many'] or flags['nested']) and len(executed_texts) >= 2)
    finally:
        world.set_current(None)
        MUTATE_FETCHED[0] = False
    stats['steps'] = S.steps
    stats['probes'] = dict(S.probes)
    stats['faults_fired'] = dict(S.fired)
    out = {'digest': log.digest(), 'violations': viols, 'stats': stats}
    if keep_log:
        out['log'] = log.events
    return out


def brief(o):
    if o is None:
        return None
    if o[0] == 'err':
        return {'raises': o[1]}
    return {'desc': o[1], 'rows': o[2][:12] if o[2] else o[2], 'nrows': len(o[2]) if o[2] is not None else None}


def simplify(case):
    W = case['world']
    if len(W['ledger']['dirs']) > 1:
        for cut in (len(W['ledger']['dirs']) // 2, len(W['ledger']['dirs']) - 1):
            c = copy.deepcopy(case)
            c['world']['ledger']['dirs'] = W['ledger']['dirs'][:cut]
            yield c
    t = W['tables'][0]
    if len(t['rows']) > 1:
        for cut in (len(t['rows']) // 2, len(t['rows']) - 1):
            c = copy.deepcopy(case)
            c['world']['tables'][0]['rows'] = t['rows'][:cut]
            yield c
    if case.get('nested'):
        c = copy.deepcopy(case)
        c['nested'] = {}
        yield c
    for ci, cl in enumerate(case['clients']):
        for oi, op in enumerate(cl['ops']):
            if op.get('real_parse') or op.get('fault') or op.get('badparams'):
                c = copy.deepcopy(case)
                o = c['clients'][ci]['ops'][oi]
                o.pop('fault', None)
                o.pop('badparams', None)
                o['real_parse'] = False
                yield c
            if op.get('op') == 'executemany' and len(op['sets']) > 2:
                c = copy.deepcopy(case)
                c['clients'][ci]['ops'][oi]['sets'] = op['sets'][:2]
                yield c


def sample(case, out):
    pool = case['world']['stmts']
    return {'stmts': [s['t'] for s in pool],
            'clients': [[_brief(o) for o in c['ops']] for c in case['clients']],
            'nested': _brief(case['nested']['op']) if case.get('nested') else None,
            'schedule': case['schedule'][:60], 'violations': len(out['violations'])}


def _brief(op):
    s = op['op']
    if 'stmt' in op:
        s += f'#{op["stmt"]}:{op.get("mode", "")}'
    if 'h' in op:
        s += f'@h{op["h"]}'
    if op.get('sets') is not None:
        s += f'x{len(op["sets"])}'
    if op.get('fault'):
        s += f'!{op["fault"]["kind"]}'
    if op.get('badparams'):
        s += f'?{op["badparams"]}'
    return s
