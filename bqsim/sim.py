"""Single-thread simulation context for op-level histories (C09, C10, C12, C19).

Interleaving inside an operation comes from re-entrancy (`verif_reenter`) and
natural nesting; faults fire at planned scan rows / function evaluations.
"""

import collections

from . import core
from .core import SimStorageError, SimUdfError, SimCancel


class OpSim:
    inert = False

    def __init__(self, log):
        self.log = log
        self.steps = 0
        self.scans = 0
        self.armed = None          # fault armed for the current operation
        self.fired = collections.Counter()
        self.probes = collections.Counter()
        self.reenter_plan = {}     # k -> callable
        self.reenter_depth = 0
        self.udf_calls = collections.Counter()
        self.open_scans = {}       # scan id -> table   (scans in flight)
        self.scan_stack = []       # [scan id, last delivered row index], innermost last
        self.scan_rows = collections.Counter()

    # -- fault arming --------------------------------------------------
    def arm(self, fault):
        """fault: None | {'kind': 'storage', 'table': t, 'row': r}
                      | {'kind': 'udf'|'cancel', 'k': k, 'n': n}"""
        self.armed = dict(fault) if fault else None
        self.udf_calls.clear()

    def disarm(self):
        fired = self.armed is not None and self.armed.get('_fired', False)
        self.armed = None
        return fired

    # -- seams ---------------------------------------------------------
    def begin_scan(self, table):
        self.scans += 1
        self.open_scans[self.scans] = table
        self.scan_stack.append([self.scans, None])
        if len(self.open_scans) > 1:
            self.probes['nested_scans'] += 1
        return self.scans

    def end_scan(self, scan, table):
        self.open_scans.pop(scan, None)
        self.scan_stack = [e for e in self.scan_stack if e[0] != scan]

    def current_rowno(self):
        return self.scan_stack[-1][1] if self.scan_stack else None

    def scan_point(self, scan, table, rowno):
        self.steps += 1
        for e in self.scan_stack:
            if e[0] == scan:
                e[1] = rowno
        a = self.armed
        if a and a['kind'] == 'storage' and not a.get('_fired') and a['table'] == table and a['row'] == rowno \
                and (a.get('depth') is None or a['depth'] == self.reenter_depth):
            a['_fired'] = True
            self.fired['storage_error'] += 1
            self.open_scans.pop(scan, None)
            raise SimStorageError(5, f'injected read error in {table} at row {rowno}')

    def expr_point(self, site, phase):
        self.steps += 1

    def fault_point(self, k):
        self.steps += 1
        a = self.armed
        if a and a['kind'] in ('udf', 'cancel') and not a.get('_fired') and a.get('k', 0) == k:
            n = self.udf_calls[k]
            self.udf_calls[k] += 1
            if n == a['n']:
                a['_fired'] = True
                if a['kind'] == 'udf':
                    self.fired['udf_error'] += 1
                    raise SimUdfError(f'injected user-function error at call {n}')
                self.fired['cancel'] += 1
                raise SimCancel(f'injected cancellation at call {n}')

    def reenter(self, k, value):
        self.steps += 1
        fn = self.reenter_plan.get(k)
        if fn is not None:
            self.reenter_depth += 1
            try:
                fn()
            finally:
                self.reenter_depth -= 1


def interleave(rng, sizes):
    """A uniformly random interleaving of clients' op sequences: list of
    client ids, client i appearing sizes[i] times."""
    sched = [i for i, n in enumerate(sizes) for _ in range(n)]
    rng.shuffle(sched)
    return sched


def schedule_order(schedule, sizes):
    """Expand an explicit schedule (possibly stale after shrinking) into the
    global order [(client, op_index)].  Entries for exhausted clients are
    skipped; leftover ops run afterwards in client order."""
    pc = [0] * len(sizes)
    order = []
    for c in schedule:
        if 0 <= c < len(sizes) and pc[c] < sizes[c]:
            order.append((c, pc[c]))
            pc[c] += 1
    for c in range(len(sizes)):
        while pc[c] < sizes[c]:
            order.append((c, pc[c]))
            pc[c] += 1
    return order
