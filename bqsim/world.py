"""Simulated world: generated ledgers, harness tables, harness BQL functions,
and the per-run simulation context they report to.

Real code: everything of beanquery.  Stubs: the row sources' *iteration*
(wrapped with yield/fault points), the user functions below, output writers.
"""

import datetime
import decimal
import threading

from . import core
from .core import SimStorageError, SimUdfError, SimCancel, HarnessError

core.bootstrap()

import beanquery  # noqa: E402
from beancount import loader  # noqa: E402
from beanquery import query_compile, query_env, tables, types  # noqa: E402

D = decimal.Decimal

ACCOUNTS = [
    'Assets:Bank:Checking', 'Assets:Bank:Savings', 'Assets:Broker', 'Assets:Cash',
    'Liabilities:Card', 'Income:Salary', 'Income:PnL', 'Expenses:Food',
    'Expenses:Rent', 'Equity:Opening',
]
PAYEES = [None, 'Employer', 'Cafe Rio', 'Landlord', 'Broker Inc', "Market"]
NARR = ['salary', 'lunch', 'rent', 'buy', 'sell', 'transfer', 'coffee', '']
TAGS = ['trip', 'work', 'fun']
LINKS = ['inv1', 'inv2']


# ---------------------------------------------------------------------------
# ledger spec -> text

def gen_ledger(rng, n_txn=None, with_queries=False, with_errors=False, rich=True, repeats=False):
    """Generate a ledger *spec* (JSON-able).  Multi-currency, lots at cost with
    dates, sales reducing lots, price directives."""
    n_txn = n_txn if n_txn is not None else rng.randint(3, 12)
    day = datetime.date(2020, 1, 1) + datetime.timedelta(days=rng.randint(0, 20))
    dirs = []
    lots = []     # [cur, cost_number, cost_cur, date, units_left]
    lot_no = 0
    for i in range(n_txn):
        day = day + datetime.timedelta(days=rng.randint(0, 9))
        kind = rng.choices(['cash', 'fx', 'buy', 'sell', 'multi'], [5, 2, 3, 3, 2])[0]
        if kind == 'sell' and not any(l[4] > 0 for l in lots):
            kind = 'buy'
        if not rich and kind in ('fx', 'multi'):
            kind = 'cash'
        t = {'k': 'txn', 'date': day.isoformat(), 'flag': rng.choice('**!'),
             'payee': rng.choice(PAYEES), 'narr': rng.choice(NARR),
             'tags': sorted(rng.sample(TAGS, rng.choice([0, 0, 1, 2]))),
             'links': sorted(rng.sample(LINKS, rng.choice([0, 0, 0, 1]))),
             'postings': []}
        P = t['postings']
        if rich and rng.random() < 0.3:
            # user metadata: string values, some numeric-looking, some not (implicit and explicit casts)
            t['meta'] = {'qty': rng.choice(['12.5', '3', 'abc', '1e3', '', '7.00', 'n/a'])}
        if kind == 'cash':
            cur = rng.choice(['USD', 'USD', 'EUR'])
            amt = D(rng.randint(1, 200000)) / 100
            if repeats:
                # values that repeat: equal amounts on several accounts, identical posting lines
                amt = D(rng.choice([100, 100, 250, 40]))
            a, b = rng.sample(ACCOUNTS[:2] + ACCOUNTS[3:6] + ACCOUNTS[7:9], 2)
            P.append({'acct': a, 'units': f'{amt:.2f} {cur}'})
            if repeats and rng.random() < 0.5:
                P.append({'acct': a, 'units': f'{amt:.2f} {cur}'})
                P.append({'acct': b, 'units': None})
                dirs.append(t)
                continue
            if rng.random() < 0.3:
                part = (amt / 3).quantize(D('0.01'))
                P.append({'acct': b, 'units': f'{-part:.2f} {cur}'})
                P.append({'acct': rng.choice(ACCOUNTS[7:9]), 'units': None})
            else:
                P.append({'acct': b, 'units': None})
        elif kind == 'fx':
            eur = D(rng.randint(100, 50000)) / 100
            rate = D(rng.randint(90, 140)) / 100
            P.append({'acct': 'Assets:Cash', 'units': f'{eur:.2f} EUR', 'price': f'@ {rate:.2f} USD'})
            P.append({'acct': 'Assets:Bank:Checking', 'units': None})
        elif kind == 'buy':
            # mostly stocks; sometimes a currency that is also held without cost elsewhere in the ledger
            cur = rng.choice(['HOOL', 'VTI', 'HOOL', 'VTI', 'EUR'])
            lot_no += 1
            cost = D(rng.randint(1000, 30000)) / 100 + D(lot_no) / 1000
            units = rng.randint(1, 20)
            lots.append([cur, cost, 'USD', day.isoformat(), units])
            P.append({'acct': 'Assets:Broker', 'units': f'{units} {cur}',
                      'cost': f'{{{cost} USD, {day.isoformat()}}}'})
            P.append({'acct': 'Assets:Bank:Checking', 'units': None})
        elif kind == 'sell':
            lot = rng.choice([l for l in lots if l[4] > 0])
            units = rng.randint(1, lot[4])
            lot[4] -= units
            price = (lot[1] * D(rng.randint(80, 130)) / 100).quantize(D('0.01'))
            P.append({'acct': 'Assets:Broker', 'units': f'{-units} {lot[0]}',
                      'cost': f'{{{lot[1]} USD, {lot[3]}}}', 'price': f'@ {price} USD'})
            P.append({'acct': 'Assets:Bank:Checking', 'units': f'{units * price:.2f} USD'})
            P.append({'acct': 'Income:PnL', 'units': None})
        else:  # multi
            a = D(rng.randint(100, 9000)) / 100
            b = D(rng.randint(100, 9000)) / 100
            P.append({'acct': 'Expenses:Food', 'units': f'{a:.2f} USD'})
            P.append({'acct': 'Expenses:Rent', 'units': f'{b:.2f} EUR'})
            P.append({'acct': 'Liabilities:Card', 'units': f'{-a:.2f} USD'})
            P.append({'acct': 'Assets:Cash', 'units': f'{-b:.2f} EUR'})
        dirs.append(t)
        if rich and rng.random() < 0.35:
            cur = rng.choice(['HOOL', 'VTI', 'EUR'])
            amt = D(rng.randint(50, 30000)) / 100
            dirs.append({'k': 'price', 'date': day.isoformat(), 'cur': cur, 'amt': f'{amt:.2f} USD'})
        if rich and rng.random() < 0.12:
            # a third currency reachable only through USD (no direct price from the commodities)
            amt = D(rng.randint(110, 150)) / 100
            dirs.append({'k': 'price', 'date': day.isoformat(), 'cur': 'USD', 'amt': f'{amt:.2f} CAD'})
        if rich and rng.random() < 0.1:
            dirs.append({'k': 'note', 'date': day.isoformat(), 'acct': rng.choice(ACCOUNTS[:4]),
                         'text': rng.choice(['called', 'checked', 'n/a'])})
    if with_errors:
        day = day + datetime.timedelta(days=1)
        dirs.append({'k': 'txn', 'date': day.isoformat(), 'flag': '*', 'payee': None, 'narr': 'broken',
                     'tags': [], 'links': [], 'postings': [
                         {'acct': 'Assets:Cash', 'units': '10.00 USD'},
                         {'acct': 'Expenses:Food', 'units': '-9.00 USD'}]})
    spec = {'accounts': list(ACCOUNTS), 'dirs': dirs, 'lastday': day.isoformat()}
    if with_queries:
        spec['queries'] = []
    return spec


def render_ledger(spec):
    out = ['option "operating_currency" "USD"', '']
    for a in spec['accounts']:
        out.append(f'2019-01-01 open {a}')
    out.append('')
    for d in spec['dirs']:
        k = d['k']
        if k == 'txn':
            head = f'{d["date"]} {d["flag"]}'
            if d.get('payee') is not None:
                head += f' "{d["payee"]}"'
            head += f' "{d["narr"]}"'
            for t in d.get('tags', ()):
                head += f' #{t}'
            for l in d.get('links', ()):
                head += f' ^{l}'
            out.append(head)
            for mk, mv in sorted((d.get('meta') or {}).items()):
                out.append(f'  {mk}: "{mv}"')
            for p in d['postings']:
                line = f'  {p["acct"]}'
                if p.get('units'):
                    line += f'  {p["units"]}'
                    if p.get('cost'):
                        line += f' {p["cost"]}'
                    if p.get('price'):
                        line += f' {p["price"]}'
                out.append(line)
            out.append('')
        elif k == 'price':
            out.append(f'{d["date"]} price {d["cur"]} {d["amt"]}')
        elif k == 'note':
            out.append(f'{d["date"]} note {d["acct"]} "{d["text"]}"')
        elif k == 'query':
            text = d['text'].replace('"', "'")
            out.append(f'{d["date"]} query "{d["name"]}" "{text}"')
        elif k == 'event':
            out.append(f'{d["date"]} event "{d["name"]}" "{d["value"]}"')
        else:
            raise HarnessError(f'unknown directive kind {k}')
    out.append('')
    return '\n'.join(out)


_LEDGER_CACHE = {}


def load_ledger(spec, copy=0):
    """Load a ledger spec.  `copy` selects an independent set of entry objects
    (history world vs reference world), cached per process.  With spec['nometa']
    the postings of transactions carry meta=None, as the postings of pad and
    summarization entries and of programmatically built ledgers do."""
    text = render_ledger(spec)
    key = (text, copy, bool(spec.get('nometa')), spec.get('dupobj'))
    hit = _LEDGER_CACHE.get(key)
    if hit is None:
        if len(_LEDGER_CACHE) > 64:
            _LEDGER_CACHE.clear()
        entries, errors, options = loader.load_string(text)
        if spec.get('nometa'):
            from beancount.core import data
            entries = [e._replace(postings=[p._replace(meta=None) for p in e.postings])
                       if isinstance(e, data.Transaction) else e for e in entries]
        if spec.get('dupobj'):
            # a programmatically assembled ledger may hold the very same (immutable) Transaction
            # object more than once, e.g. entries + [rent, rent]
            from beancount.core import data
            out = []
            n = 0
            for e in entries:
                out.append(e)
                if isinstance(e, data.Transaction):
                    n += 1
                    if n % spec['dupobj'] == 0:
                        out.append(e)
            entries = out
        hit = _LEDGER_CACHE[key] = (entries, errors, options, repr(entries))
    return hit


# ---------------------------------------------------------------------------
# typed harness tables

TYPES = {'int': int, 'dec': D, 'str': str, 'date': datetime.date, 'bool': bool}


def enc(v):
    """JSON-able encoding of a typed cell / parameter value."""
    if v is None:
        return None
    if isinstance(v, bool):
        return ['bool', v]
    if isinstance(v, int):
        return ['int', v]
    if isinstance(v, D):
        return ['dec', str(v)]
    if isinstance(v, str):
        return ['str', v]
    if isinstance(v, datetime.date):
        return ['date', v.isoformat()]
    if isinstance(v, (list, tuple)):
        return ['list', [enc(x) for x in v]]
    if isinstance(v, dict):
        return ['dict', {k: enc(x) for k, x in v.items()}]
    raise HarnessError(f'cannot encode {v!r}')


def dec(e):
    if e is None:
        return None
    t, v = e
    if t == 'bool' or t == 'int' or t == 'str':
        return v
    if t == 'dec':
        return D(v)
    if t == 'date':
        return datetime.date.fromisoformat(v)
    if t == 'list':
        return [dec(x) for x in v]
    if t == 'dict':
        return {k: dec(x) for k, x in v.items()}
    raise HarnessError(f'cannot decode {e!r}')


def literal(v):
    """BQL literal spelling of a parameter value."""
    if v is None:
        return 'NULL'
    if isinstance(v, bool):
        return 'TRUE' if v else 'FALSE'
    if isinstance(v, int):
        return str(v)
    if isinstance(v, D):
        s = f'{v:f}'          # exponent-preserving: Decimal('10') is spelled '10.'
        return s if '.' in s else s + '.'
    if isinstance(v, str):
        assert '"' not in v and "'" not in v
        return f"'{v}'"
    if isinstance(v, datetime.date):
        return v.isoformat()
    if isinstance(v, list):
        return '(' + ', '.join(literal(x) for x in v) + (',)' if len(v) == 1 else ')')
    raise HarnessError(f'no literal for {v!r}')


def gen_value(rng, t, nullable=0.0):
    if nullable and rng.random() < nullable:
        return None
    if t == 'int':
        return rng.choice([0, 1, 2, 3, 5, 7, 10, -1, -4, 12, 100, 2020])
    if t == 'dec':
        return rng.choice([D('0'), D('1.5'), D('2.50'), D('-3.25'), D('10'), D('0.01'), D('100.00'), D('7.125')])
    if t == 'str':
        return rng.choice(['a', 'b', 'abc', 'Assets', 'Bank', 'x y', '', 'Expenses:Food', 'zz', 'USD'])
    if t == 'date':
        return datetime.date(2020, 1, 1) + datetime.timedelta(days=rng.choice([0, 1, 5, 30, 31, 59, 60, 100, 366]))
    if t == 'bool':
        return rng.random() < 0.5
    raise HarnessError(t)


def gen_table(rng, name, nrows=None, cols=None, nullable=0.1):
    cols = cols or [('a', 'int'), ('b', 'dec'), ('c', 'str'), ('d', 'date'), ('e', 'bool')][:rng.randint(2, 5)]
    nrows = nrows if nrows is not None else rng.randint(0, 12)
    rows = []
    for i in range(nrows):
        rows.append([enc(gen_value(rng, t, nullable)) for _, t in cols])
    return {'name': name, 'cols': [list(c) for c in cols], 'rows': rows}


class SimColumn(query_compile.EvalColumn):
    __slots__ = ('index', 'tname')

    def __init__(self, index, dtype, tname):
        super().__init__(dtype)
        self.index = index
        self.tname = tname

    def __call__(self, row):
        return row[self.index]


class SimTable(tables.Table):
    """User table (documented extension point) whose iteration reports every
    row boundary to the simulation and can fail at a planned row."""

    def __init__(self, spec):
        self.name = spec['name']
        self.columns = {c: SimColumn(i, TYPES[t], self.name) for i, (c, t) in enumerate(spec['cols'])}
        self.rows = [tuple(dec(x) for x in r) for r in spec['rows']]

    def __iter__(self):
        sim = current()
        scan = sim.begin_scan(self.name)
        try:
            for i, row in enumerate(self.rows):
                sim.scan_point(scan, self.name, i)
                yield row
        finally:
            sim.end_scan(scan, self.name)


class SimPostings(query_env.PostingsTable):
    """The real postings table; only the iteration is wrapped."""

    def __iter__(self):
        sim = current()
        scan = sim.begin_scan('postings')
        try:
            for i, ctx in enumerate(super().__iter__()):
                sim.scan_point(scan, 'postings', i)
                yield ctx
        finally:
            sim.end_scan(scan, 'postings')


class SimEntries(query_env.EntriesTable):
    def __iter__(self):
        sim = current()
        scan = sim.begin_scan('entries')
        try:
            for i, ctx in enumerate(super().__iter__()):
                sim.scan_point(scan, 'entries', i)
                yield ctx
        finally:
            sim.end_scan(scan, 'entries')


def make_connection(ledger_spec, table_specs=(), copy=0, sim_tables=True):
    """Build a Connection through the public seams only."""
    entries, errors, options, _ = load_ledger(ledger_spec, copy)
    conn = beanquery.connect('beancount:', entries=entries, errors=errors, options=options)
    if sim_tables:
        conn.tables['postings'] = SimPostings(entries, options)
        conn.tables['entries'] = SimEntries(entries, options)
    for ts in table_specs:
        conn.tables[ts['name']] = SimTable(ts)
    return conn


# ---------------------------------------------------------------------------
# per-run simulation context

class Inert:
    """Context used outside a run and for reference executions: harness
    functions are identities, nothing yields, nothing fails."""
    inert = True

    def begin_scan(self, table):
        return 0

    def scan_point(self, scan, table, rowno):
        pass

    def end_scan(self, scan, table):
        pass

    def expr_point(self, site, phase):
        pass

    def reenter(self, k, value):
        pass

    def fault_point(self, k):
        pass

    def current_rowno(self):
        return None


INERT = Inert()
_current = INERT
_tls = threading.local()


def current():
    """The simulation context of the calling thread (thread override first)."""
    return getattr(_tls, 'sim', None) or _current


def set_current(sim):
    global _current
    _current = sim if sim is not None else INERT


def set_thread_current(sim):
    _tls.sim = sim


class reference_mode:
    """Reference executions run with inert harness seams."""

    def __enter__(self):
        self.saved = (_current, getattr(_tls, 'sim', None))
        set_current(INERT)
        _tls.sim = None

    def __exit__(self, *a):
        set_current(self.saved[0])
        _tls.sim = self.saved[1]


# ---------------------------------------------------------------------------
# harness BQL functions (user functions are a documented extension point)

class VerifYield(query_compile.EvalFunction):
    """verif_yield(x, site): identity; reports a sub-expression evaluation
    step before and after evaluating x."""
    __intypes__ = [types.Any, int]
    pure = False

    def __init__(self, context, operands):
        super().__init__(context, operands, operands[0].dtype)

    def __call__(self, row):
        site = self.operands[1](row)
        sim = current()
        sim.expr_point(site, 0)
        v = self.operands[0](row)
        sim.expr_point(site, 1)
        return v


class VerifReenter(query_compile.EvalFunction):
    """verif_reenter(x, k): identity; lets the simulation run planned
    statement k *inside* the current row evaluation, before x is evaluated."""
    __intypes__ = [types.Any, int]
    pure = False

    def __init__(self, context, operands):
        super().__init__(context, operands, operands[0].dtype)

    def __call__(self, row):
        k = self.operands[1](row)
        current().reenter(k, None)
        return self.operands[0](row)


class VerifFault(query_compile.EvalFunction):
    """verif_fault(x, k): identity that raises at its planned n-th evaluation."""
    __intypes__ = [types.Any, int]
    pure = False

    def __init__(self, context, operands):
        super().__init__(context, operands, operands[0].dtype)

    def __call__(self, row):
        k = self.operands[1](row)
        current().fault_point(k)
        return self.operands[0](row)


class VerifRowNo(query_compile.EvalFunction):
    """verif_rowno(x): the index, in scan order, of the row the innermost open
    scan of a wrapped table last delivered (x is ignored; it only keeps the call
    from being folded)."""
    __intypes__ = [types.Any]
    pure = False

    def __init__(self, context, operands):
        super().__init__(context, operands, int)

    def __call__(self, row):
        return current().current_rowno()


class VerifCYield(query_compile.EvalFunction):
    """verif_cyield(x, site): identity declared *pure*: with constant arguments the
    compiler folds it, i.e. calls it during compilation - a yield point in the
    middle of a compilation."""
    __intypes__ = [types.Any, int]
    pure = True

    def __init__(self, context, operands):
        super().__init__(context, operands, operands[0].dtype)

    def __call__(self, row):
        site = self.operands[1](row)
        sim = current()
        sim.expr_point(site, 0)
        v = self.operands[0](row)
        sim.expr_point(site, 1)
        return v


def _register_once():
    F = query_compile.FUNCTIONS
    for name, cls in (('verif_yield', VerifYield), ('verif_reenter', VerifReenter),
                      ('verif_fault', VerifFault), ('verif_cyield', VerifCYield), ('verif_rowno', VerifRowNo)):
        if not any(c.__name__ == cls.__name__ for c in F.get(name, ())):
            F[name].append(cls)


_register_once()


# ---------------------------------------------------------------------------
# writer seam

class SimWriter:
    """In-memory text sink with an optional fault plan: raise OSError on the
    k-th write (counted from arm())."""

    def __init__(self):
        self.chunks = []
        self.fail_at = None
        self.nwrites = 0
        self.fired = 0

    def arm(self, k, errno_=32):
        self.fail_at = k
        self.errno = errno_
        self.nwrites = 0

    def disarm(self):
        self.fail_at = None

    def write(self, s):
        if self.fail_at is not None:
            if self.nwrites == self.fail_at:
                self.fail_at = None
                self.fired += 1
                raise OSError(self.errno, 'injected writer fault')
            self.nwrites += 1
        self.chunks.append(s)
        return len(s)

    def flush(self):
        pass

    def isatty(self):
        return False

    def getvalue(self):
        return ''.join(self.chunks)

    def take(self):
        v = ''.join(self.chunks)
        self.chunks = []
        return v
