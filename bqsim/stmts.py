"""Statement helpers: parse cache with pristine masters and structural clones.

TatSu parsing costs 10-70 ms per statement, two orders of magnitude more than
compile+execute, so a "fresh text" execution is served in most cases by a
fresh structural clone of an AST parsed once per process (observationally a
fresh parse: new node objects, Placeholder.name as the parser left it), while
a fixed share of executions goes through the real `parser.parse`.
"""

import dataclasses

from . import core

core.bootstrap()

from beanquery import parser  # noqa: E402
from beanquery.parser import ast  # noqa: E402

_MASTERS = {}


def clone(node, repl=None):
    """Structural clone of an AST: new Node objects, shared leaves/parseinfo.
    `repl` maps id(node) -> replacement node factory (used for substitution)."""
    if isinstance(node, ast.Node):
        if repl is not None and id(node) in repl:
            return repl[id(node)]()
        kw = {}
        for f in dataclasses.fields(node):
            kw[f.name] = clone(getattr(node, f.name), repl)
        return type(node)(**kw)
    if isinstance(node, list):
        return [clone(x, repl) for x in node]
    return node


def const_node(v):
    """The AST the parser produces for the literal spelling of `v`."""
    import decimal
    if isinstance(v, (int, decimal.Decimal)) and not isinstance(v, bool) and v < 0:
        return ast.Neg(operand=ast.Constant(value=-v))
    if isinstance(v, list):
        return ast.Constant(value=list(v))
    return ast.Constant(value=v)


def substituted(text, values):
    """AST of `text` (written with %s placeholders) with the placeholders, in
    textual order, replaced by the literal nodes of `values`: the AST of the
    statement with the parameter values written as literals, without paying
    for another TatSu parse."""
    kind, m = master(text)
    if kind == 'err':
        raise m
    phs = sorted((n for n in m.walk() if isinstance(n, ast.Placeholder)), key=lambda n: n.parseinfo.pos)
    if len(phs) != len(values):
        raise core.HarnessError(f'{len(phs)} placeholders, {len(values)} values in {text!r}')
    repl = {id(p): (lambda v=v: const_node(v)) for p, v in zip(phs, values)}
    return clone(m, repl)


def master(text):
    """Pristine parsed AST (never handed to the compiler) or the exception."""
    hit = _MASTERS.get(text)
    if hit is None:
        if len(_MASTERS) > 20000:
            _MASTERS.clear()
        try:
            # keep a private structural copy: should the parser under test hand out shared
            # (cached) AST objects, nothing the system does to them later can reach the master
            hit = ('ok', clone(parser.parse(text)))
        except Exception as e:    # ParseError and anything else the parser raises
            hit = ('err', e)
        _MASTERS[text] = hit
    return hit


def fresh_ast(text):
    """A new AST for `text`, equal to what parser.parse would return; raises
    what parser.parse raised."""
    kind, val = master(text)
    if kind == 'err':
        raise val
    return clone(val)


def for_execute(text, real_parse):
    """What to hand to Cursor.execute for a 'fresh text' execution."""
    if real_parse:
        return text
    kind, val = master(text)
    if kind == 'err':
        return text     # let the real parser raise inside execute
    return clone(val)
