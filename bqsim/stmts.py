"""Statement helpers: parse cache with pristine masters and structural clones.

TatSu parsing costs 10-70 ms per statement, two orders of magnitude more than
compile+execute, so a "fresh text" execution is served in most cases by a
fresh structural clone of an AST parsed once per process (observationally a
fresh parse: new node objects, Placeholder.name as the parser left it), while
a fixed share of executions goes through the real `parser.parse`.
"""

import dataclasses

from . import core

core.bootstrap()

from beanquery import parser  # noqa: E402
from beanquery.parser import ast  # noqa: E402

_MASTERS = {}


def clone(node):
    """Structural clone of an AST: new Node objects, shared leaves/parseinfo."""
    if isinstance(node, ast.Node):
        kw = {}
        for f in dataclasses.fields(node):
            kw[f.name] = clone(getattr(node, f.name))
        return type(node)(**kw)
    if isinstance(node, list):
        return [clone(x) for x in node]
    return node


def master(text):
    """Pristine parsed AST (never handed to the compiler) or the exception."""
    hit = _MASTERS.get(text)
    if hit is None:
        if len(_MASTERS) > 20000:
            _MASTERS.clear()
        try:
            hit = ('ok', parser.parse(text))
        except Exception as e:    # ParseError and anything else the parser raises
            hit = ('err', e)
        _MASTERS[text] = hit
    return hit


def fresh_ast(text):
    """A new AST for `text`, equal to what parser.parse would return; raises
    what parser.parse raised."""
    kind, val = master(text)
    if kind == 'err':
        raise val
    return clone(val)


def for_execute(text, real_parse):
    """What to hand to Cursor.execute for a 'fresh text' execution."""
    if real_parse:
        return text
    kind, val = master(text)
    if kind == 'err':
        return text     # let the real parser raise inside execute
    return clone(val)
