"""C19 - the shell prints what the API returns; settings are a typed store;
the command line applies its options.

Seeded shell-session histories: 1-2 BQLShell sessions in one process (in-memory
ledger / outfile / stderr / stdin seams), lines fed through the real dispatcher
(onecmd, or the real cmdloop reading a StringIO stdin), writer faults, failing
statements; plus simulated process runs of the CLI entry point.  Reference
model: a dict of typed settings and a direct call of the renderer on the API
result of the same statement on a fresh connection.
"""

import contextlib
import copy
import io
import os
import shlex
import shutil
import sys
import tempfile

from . import core, sim, stmts, world

core.bootstrap()

import beanquery  # noqa: E402
from beanquery import query_render, shell  # noqa: E402
from beanquery.numberify import numberify_results  # noqa: E402
from beanquery.query_execute import execute_print  # noqa: E402

PROP = 'C19'
# results that depend on what the process executed earlier violate this property even when every operation
# agrees with its in-process reference (see driver.find_cross_execution_dependence)
CROSS_EXECUTION_IS_VIOLATION = True
RULE = ('one run = either a seeded shell history (1-2 BQLShell sessions in one process, <= 30 lines each: .set in all '
        'forms, BQL statements in any letter case, .run, .tables/.describe/.explain, unknown and dot-prefixed-keyword '
        'commands, legacy bare commands; driven through onecmd or the real cmdloop; writer faults on the k-th write) or a '
        'simulated CLI process run (shell.main in-process with scratch HOME/ledger/-o file, options -f -m -o -q, query as '
        'argument or on stdin, ledgers with and without load errors, optional init file). non-trivial = the history '
        'renders at least one statement after a successful .set changed a rendering-relevant setting, or is a CLI run with '
        'at least one option; distinct = distinct digest of (lines, schedule, outputs).')
ASSUMPTIONS = [
    'expected output = query_render.render_text / render_csv called directly with the model settings on the API result of the same statement on a fresh connection (same renderer and engine on both sides: only the shell glue is judged)',
    'values whose validity the property does not pin (format CSV, padded booleans, legacy bare commands, duplicate query names) are judged either-or: applied exactly, or rejected with an error and nothing changed',
    '.run default CLOSE ON: named SELECT queries in all shapes; named BALANCES/JOURNAL/PRINT only without FROM or with an explicit CLOSE (where both readings of the property agree)',
    '.tables/.describe/.explain output text and warnings text are never compared',
]
PROBES = ['comment_only_line', 'cli_init_sets_format_or_numberify', 'cli_output_file_preexisting', 'run_default_close_non_select', 'run_listing_after_missing_name', 'bookkeeping_command', 'several_lines_in_one_cmdloop', 'bare_non_legacy_word', 'named_query_text_typed_after_run', 'render_after_setting_change', 'numberify_on_render', 'csv_render', 'boxed_unicode_render', 'empty_text_result',
          'run_default_close_applied', 'run_explicit_close_kept', 'invalid_set_rejected', 'either_or_value', 'writer_fault_prefix',
          'second_session_isolated', 'cmdloop_error_path', 'dot_keyword_not_executed', 'legacy_bare_command', 'print_statement',
          'cli_output_file', 'cli_quiet_with_errors', 'cli_stdin_query', 'cli_init_file', 'nullvalue_rendered', 'expand_render', 'malformed_quoting_argument']

BOOLS = ['boxed', 'expand', 'narrow', 'numberify', 'pager', 'spaced', 'unicode']
DEFAULTS = {'boxed': False, 'expand': False, 'format': 'text', 'narrow': True, 'nullvalue': '', 'numberify': False,
            'pager': True, 'spaced': False, 'unicode': False}
TRUE = ['1', 'true', 't', 'yes', 'y', 'on']
FALSE = ['0', 'false', 'f', 'no', 'n', 'off']
RENDER_KEYS = ['boxed', 'expand', 'format', 'narrow', 'nullvalue', 'numberify', 'spaced', 'unicode']

STMTS = [
    'SELECT date, account, position',
    'SELECT account, sum(position) AS total GROUP BY account',
    'SELECT payee, narration, tags, number WHERE number > 0',
    'SELECT date, payee, links, weight ORDER BY date DESC LIMIT 4',
    'SELECT account, units(sum(position)) AS u, cost(sum(position)) AS c GROUP BY account ORDER BY account',
    'SELECT account WHERE account = "nowhere"',
    'SELECT DISTINCT currency, cost_currency ORDER BY 1',
    'SELECT date, narration FROM #transactions',
    'SELECT account, position, balance WHERE account ~ "Broker"',
    'SELECT 1 AS one, NULL AS nothing, "x" AS s FROM #',
    "SELECT account, 'a;b' AS semi WHERE narration != 'x; y' AND number > 0",
    '/* monthly report */ SELECT account, sum(position) AS total GROUP BY account ORDER BY account',
    'BALANCES',
    'BALANCES AT cost FROM year = 2020',
    'JOURNAL "Assets:Bank"',
    'JOURNAL "Broker" AT units',
    'PRINT',
    'PRINT FROM narration ~ "lunch|rent"',
    'SELECT account, sum(number) AS n, currency GROUP BY account, currency PIVOT BY account, currency',
    'SELECT nosuch',
    'SELECT FROM WHERE',
    'SELECT sum(number), account WHERE sum(number) > 1',
]


# ---------------------------------------------------------------------------
# generation

def gen_named_queries(rng, lastday):
    qs = []
    shapes = rng.sample(['sel_from', 'sel_from_close', 'sel_nofrom', 'sel_open', 'bal_nofrom', 'bal_close', 'jrn_nofrom',
                         'prt_close', 'sel_from2', 'bal_from', 'jrn_from', 'prt_from'], rng.randint(2, 5))
    for i, sh_ in enumerate(shapes):
        date = rng.choice(['2020-01-20', '2020-02-10', '2020-03-05', '2021-01-01'])
        name = rng.choice([f'q{i}', f'q-{i}', f'my query {i}'])
        q = {'name': name, 'date': date, 'shape': sh_}
        if sh_ == 'sel_from':
            q['head'], q['from'], q['tail'] = 'SELECT account, sum(position) AS total', 'year >= 2020', 'GROUP BY account'
        elif sh_ == 'sel_from2':
            q['head'], q['from'], q['tail'] = 'SELECT date, account, position', "narration != 'zzz'", 'WHERE number > 0'
        elif sh_ == 'sel_from_close':
            q['head'], q['from'], q['tail'] = 'SELECT date, account, number', 'year >= 2020 CLOSE ON 2020-02-01', ''
            q['explicit'] = True
        elif sh_ == 'sel_open':
            q['head'], q['from'], q['tail'] = 'SELECT account, sum(position) AS total', 'OPEN ON 2020-01-15', 'GROUP BY account'
        elif sh_ == 'sel_nofrom':
            q['head'], q['from'], q['tail'] = 'SELECT date, narration, number', None, 'WHERE number < 0'
        elif sh_ == 'bal_nofrom':
            q['head'], q['from'], q['tail'] = 'BALANCES AT units', None, ''
        elif sh_ == 'bal_close':
            q['head'], q['from'], q['tail'] = 'BALANCES', 'year >= 2020 CLOSE ON 2020-02-20', ''
            q['explicit'] = True
        elif sh_ == 'bal_from':
            q['head'], q['from'], q['tail'] = 'BALANCES', 'year >= 2020', ''
        elif sh_ == 'jrn_from':
            q['head'], q['from'], q['tail'] = "JOURNAL 'Assets'", "narration != 'zzz'", ''
        elif sh_ == 'prt_from':
            q['head'], q['from'], q['tail'] = 'PRINT', 'year >= 2020', ''
        elif sh_ == 'jrn_nofrom':
            q['head'], q['from'], q['tail'] = "JOURNAL 'Assets'", None, ''
        elif sh_ == 'prt_close':
            q['head'], q['from'], q['tail'] = 'PRINT', 'year >= 2020 CLOSE ON 2020-02-20', ''
            q['explicit'] = True
        qs.append(q)
    if rng.random() < 0.15 and qs:
        d = dict(rng.choice(qs))
        d['date'] = '2021-06-01'
        d['dup'] = True
        qs.append(d)
    if rng.random() < 0.3 and qs:
        # same text under another name and date: each must run with its own default close date
        d = dict(rng.choice([q for q in qs if not q.get('dup')] or qs))
        if not d.get('dup'):
            d['name'] = d['name'] + '-again'
            d['date'] = rng.choice(['2020-01-25', '2020-02-15', '2020-04-01'])
            qs.append(d)
    return qs


def query_text(q, with_default_close=False):
    t = q['head']
    if q.get('from'):
        t += ' FROM ' + q['from']
        if with_default_close and not q.get('explicit'):
            # "CLOSE ON defaulting to the query directive's date when its FROM clause names none" - for every
            # kind of statement that has a FROM clause
            t += ' CLOSE ON ' + q['date']
    if q.get('tail'):
        t += ' ' + q['tail']
    return t


def recase(rng, text):
    r = rng.random()
    if r < 0.6:
        return text
    first, _, rest = text.partition(' ')
    if r < 0.8:
        return first.lower() + (' ' + rest if rest else '')
    return first.capitalize() + (' ' + rest if rest else '')


def gen_set(rng):
    r = rng.random()
    if r < 0.08:
        return {'op': 'set_show_all'}
    if r < 0.2:
        return {'op': 'set_show', 'name': rng.choice(list(DEFAULTS) + ['nosuch', 'todict', '__doc__', 'setstr'])}
    if r < 0.25:
        return {'op': 'set_arity', 'name': rng.choice(list(DEFAULTS)), 'args': ['true', 'false']}
    if r < 0.29:
        # a value (or name) whose quoting is never closed: an invalid argument like any other
        return {'op': 'badquote', 'text': rng.choice(['.set nullvalue "abc', ".set boxed 'true", '.set format "csv', ".set nullvalue '",
                                                      '.set "boxed true', ".set unicode 'no", 'set spaced "on'])}
    name = rng.choice(BOOLS * 2 + ['format'] * 4 + ['nullvalue'] * 3 + ['nosuch', 'Boxed', 'todict', 'getstr', '__doc__', '_parse_bool'])
    if name in BOOLS:
        v = rng.choice(TRUE + FALSE + [x.upper() for x in TRUE[:3] + FALSE[:3]] + ['True', 'False', 'maybe', '2', 'tru', '', ' yes ', 'on '])
    elif name == 'format':
        v = rng.choice(['text', 'csv', 'csv', 'text', 'CSV', 'html', 'Text', '', 'json'])
    elif name == 'nullvalue':
        v = rng.choice(['', '-', 'NULL', 'N A', 'n/a', '(none)', 'true', '0'])
    else:
        v = rng.choice(['true', 'csv', 'x'])
    return {'op': 'set', 'name': name, 'value': v}


def generate(rng, tier, run):
    if rng.random() < 0.14:
        return generate_cli(rng, tier, run)
    big = tier == 'thorough'
    ledger = world.gen_ledger(rng, n_txn=rng.randint(2, 7 if not big else 12))
    named = gen_named_queries(rng, ledger['lastday'])
    for q in named:
        ledger['dirs'].append({'k': 'query', 'date': q['date'], 'name': q['name'], 'text': query_text(q)})
    pool = rng.sample(STMTS[:19], rng.randint(3, 7)) + rng.sample(STMTS[19:], rng.choice([0, 1, 1, 2]))
    # the text of a named query typed as an ordinary statement (must NOT get the directive's close date)
    for q in named:
        if rng.random() < 0.5 and not q.get('dup'):
            pool.append(query_text(q))
    nsess = rng.choice([1, 1, 2])
    maxlines = 14 if not big else 30
    clients = []
    for s in range(nsess):
        ops = [{'op': 'open', 'format': rng.choice(['text', 'text', 'csv']), 'numberify': rng.random() < 0.2,
                'mode': rng.choice(['onecmd', 'onecmd', 'cmdloop'])}]
        for _ in range(rng.randint(3, maxlines)):
            r = rng.random()
            if r < 0.38:
                ops.append(gen_set(rng))
            elif r < 0.43 and ops[0]['mode'] == 'cmdloop':
                # several lines read from standard input by ONE cmdloop call
                lines = []
                for _ in range(rng.randint(2, 4)):
                    if rng.random() < 0.4:
                        g = gen_set(rng)
                        if g['op'] == 'set' and classify_set(g['name'], g['value'])[0] == 'valid':
                            lines.append(g)
                            continue
                    i = rng.randrange(len(pool))
                    lines.append({'op': 'stmt', 'stmt': i, 'text': recase(rng, pool[i])})
                ops.append({'op': 'script', 'lines': lines})
            elif r < 0.68:
                i = rng.randrange(len(pool))
                op = {'op': 'stmt', 'stmt': i, 'text': recase(rng, pool[i]) + rng.choice(['', '', ';'])}
                if rng.random() < 0.1:
                    op['writer_fault'] = rng.randint(0, 6)
                ops.append(op)
            elif r < 0.82:
                if named and rng.random() < 0.8:
                    q = rng.randrange(len(named))
                    op = {'op': 'run', 'q': q, 'form': rng.choice(['plain', 'plain', 'semicolon', 'extra'])}
                    if rng.random() < 0.08:
                        op['writer_fault'] = rng.randint(0, 6)
                    ops.append(op)
                else:
                    ops.append({'op': 'run', 'q': None, 'form': 'plain'})
            elif r < 0.9:
                ops.append(rng.choice([{'op': 'tables'}, {'op': 'describe', 'what': rng.choice(['postings', 'entries', 'nosuch', 'position'])},
                                       {'op': 'explain', 'stmt': rng.randrange(len(pool))},
                                       {'op': 'misc', 'text': '.errors'}, {'op': 'misc', 'text': '.reload'},
                                       {'op': 'misc', 'text': '.history'}, {'op': 'misc', 'text': '.clear'},
                                       {'op': 'misc', 'text': '.parse ' + rng.choice(pool)}, {'op': 'misc', 'text': '.run'}]))
            elif r < 0.96:
                ops.append(rng.choice([{'op': 'unknown', 'text': '.foo'}, {'op': 'unknown', 'text': '.selectx 1'},
                                       {'op': 'unknown', 'text': '. foo'}, {'op': 'unknown', 'text': '.-x'},
                                       {'op': 'comment_line', 'text': '; just a note'}, {'op': 'comment_line', 'text': '/* nothing to do */'},
                                       {'op': 'comment_line', 'text': '  ; indented note'},
                                       {'op': 'bareword', 'text': 'tables'}, {'op': 'bareword', 'text': 'describe postings'},
                                       {'op': 'bareword', 'text': 'explain SELECT account'}, {'op': 'bareword', 'text': 'Tables'},
                                       {'op': 'dotkw', 'text': '.select a FROM #sentinel'},
                                       {'op': 'dotkw', 'text': '.balances'}, {'op': 'dotkw', 'text': '.print'},
                                       {'op': 'dotkw', 'text': '.journal'}]))
            else:
                g = gen_set(rng)
                if g['op'] == 'set':
                    ops.append({'op': 'legacy_set', 'name': g['name'], 'value': g['value']})
                else:
                    ops.append(g)
        clients.append({'ops': ops})
    return {
        'kind': 'shell',
        'world': {'ledger': ledger, 'named': named, 'stmts': pool},
        'clients': clients,
        'schedule': sim.interleave(rng, [len(c['ops']) for c in clients]),
    }


def generate_cli(rng, tier, run):
    with_errors = rng.random() < 0.5
    ledger = world.gen_ledger(rng, n_txn=rng.randint(1, 5), with_errors=with_errors)
    stmt = rng.choice(STMTS[:18] + ['PRINT FROM year = 1999', 'PRINT FROM narration = "nothing like this"'])
    init = None
    if rng.random() < 0.25:
        init = [rng.choice(['.set boxed true', '.set spaced on', '.set nullvalue NA', '.set unicode yes', '.set expand 1',
                            '.set narrow false', '.set format csv', '.set format text', '.set numberify true',
                            '.set numberify false'])]
        if rng.random() < 0.3:
            init.insert(0, '; my preferences')
    return {
        'kind': 'cli',
        'world': {'ledger': ledger, 'with_errors': with_errors},
        'cli': {'stmt': recase(rng, stmt), 'format': rng.choice([None, 'text', 'csv']), 'numberify': rng.random() < 0.35,
                'output': rng.random() < 0.45, 'stale_output': rng.random() < 0.5, 'quiet': rng.random() < 0.5,
                'stdin': rng.random() < 0.3,
                'long_opts': rng.random() < 0.3, 'init': init},
        'clients': [],
    }


# ---------------------------------------------------------------------------
# reference: API result + direct renderer call

def api_result(conn, arg):
    """('table', desc, rows) | ('print', text) | ('err', class)"""
    from beanquery.parser import ast as _ast
    try:
        tree = stmts.fresh_ast(arg) if isinstance(arg, str) else arg
        if isinstance(tree, _ast.Print):
            out = io.StringIO()
            execute_print(conn.compile(tree), out)
            return ('print', out.getvalue())
        cur = conn.execute(tree)
        return ('table', cur.description, cur.fetchall())
    except Exception as e:
        return ('err', core.exc_class(e))


def render_expected(res, dcontext, M):
    if res[0] == 'print':
        return res[1]
    desc, rows = res[1], res[2]
    out = io.StringIO()
    if M['numberify']:
        desc, rows = numberify_results(desc, rows, dcontext.build())
    if M['format'] == 'text':
        if not rows:
            return '(empty)\n'
        query_render.render_text(desc, rows, dcontext, out, expand=M['expand'], boxed=M['boxed'], spaced=M['spaced'],
                                 nullvalue=M['nullvalue'], narrow=M['narrow'], unicode=M['unicode'])
    elif M['format'] == 'csv':
        query_render.render_csv(desc, rows, dcontext, out, expand=M['expand'], nullvalue=M['nullvalue'])
    else:
        raise core.HarnessError(f'model format {M["format"]!r}')
    return out.getvalue()


def classify_set(name, value):
    """('valid', parsed) | ('either', parsed) | ('invalid',)"""
    if name not in DEFAULTS:
        return ('invalid',)
    if name in BOOLS:
        low = value.lower()
        if low in TRUE:
            return ('valid', True) if value == value.strip() else ('either', True)
        if low in FALSE:
            return ('valid', False)
        st = value.strip().lower()
        if st in TRUE:
            return ('either', True)
        if st in FALSE:
            return ('either', False)
        return ('invalid',)
    if name == 'format':
        if value in ('text', 'csv'):
            return ('valid', value)
        if value.lower() in ('text', 'csv'):
            return ('either', value.lower())
        return ('invalid',)
    return ('valid', value)


def getstr(v):
    if isinstance(v, bool):
        return 'true' if v else 'false'
    return repr(v)


def echoes(line, name, v):
    """`line` echoes setting `name` with value `v`: it names the setting and shows the value (booleans as
    true/false in any case, strings quoted or bare) - the exact layout is not pinned by the property."""
    if name not in line:
        return False
    rest = line.replace(name, '', 1)
    if isinstance(v, bool):
        return ('true' if v else 'false') in rest.lower() and ('false' if v else 'true') not in rest.lower()
    return repr(v) in rest or (v != '' and v in rest) or (v == '' and rest.strip(' :=') in ('', "''", '""'))


_ERR = None


def has_error(err):
    """An error message was printed: a line that starts with the word 'error' (any case, any decoration)."""
    global _ERR
    if _ERR is None:
        import re
        _ERR = re.compile(r'^\W*error\b', re.IGNORECASE)
    return any(_ERR.match(line) for line in shell.style.strip(err).splitlines())


class NullOut:
    def write(self, s):
        return len(s)

    def flush(self):
        pass


# ---------------------------------------------------------------------------
# execution: shell histories

def execute(case, keep_log=False):
    if case.get('kind') == 'cli':
        return execute_cli(case, keep_log)
    W = case['world']
    pool = W['stmts']
    named = W['named']
    log = core.EventLog(keep=keep_log)
    S = sim.OpSim(log)
    world.set_current(S)
    viols = []
    stats = {'ops': 0}
    sentinel = {'name': 'sentinel', 'cols': [['a', 'int']], 'rows': [[world.enc(1)]]}
    try:
        entries, errors, options, _ = world.load_ledger(W['ledger'], 0)

        def refconn():
            return world.make_connection(W['ledger'], [sentinel], copy=1, sim_tables=False)

        refmemo = {}
        # parse every statement text of this world for the reference side before the first shell
        # line runs (pristine masters: see stmts.master)
        for t_ in list(pool) + [query_text(q, with_default_close=True) for q in named]:
            stmts.master(t_)

        def reference(key, arg):
            if key not in refmemo:
                with world.reference_mode():
                    rc = refconn()
                    refmemo[key] = (api_result(rc, arg), rc.options['dcontext'])
            return refmemo[key]

        def violation(oracle, where, op, expected, observed, sigx=''):
            viols.append({'oracle': oracle, 'where': where, 'op': op, 'expected': expected, 'observed': observed,
                          'sig': f'C19:{oracle}{sigx}'})

        n = len(case['clients'])
        sess = [None] * n
        changed_since_render = [False] * n
        ran_texts = [set() for _ in range(n)]
        asked_missing = [False] * n
        nontrivial = False
        order = sim.schedule_order(case.get('schedule', []), [len(c['ops']) for c in case['clients']])

        def open_session(ci, op):
            out = world.SimWriter()
            with contextlib.redirect_stderr(io.StringIO()), contextlib.redirect_stdout(io.StringIO()):
                sh = shell.BQLShell(None, out, interactive=False, runinit=False, format=op.get('format', 'text'),
                                    numberify=op.get('numberify', False))
                sh.context.attach('beancount:', entries=entries, errors=errors, options=options)
                sh.context.tables['sentinel'] = world.SimTable(sentinel)
                sh._extract_queries(entries)
            sh.use_rawinput = False
            sh.stdout = NullOut()
            # the model starts from a fresh settings store as the code itself defines it (defaults are not
            # pinned by the property and a release may add settings); a new session must start exactly there
            try:
                M = dict(shell.Settings(format=op.get('format', 'text'), numberify=op.get('numberify', False)).todict())
            except Exception:
                M = dict(DEFAULTS, format=op.get('format', 'text'), numberify=op.get('numberify', False))
            real0 = sh.settings.todict()
            if real0 != M:
                violation('session-start-settings', f's{ci}', op, M, real0)
                M = dict(real0)
            sess[ci] = {'sh': sh, 'out': out, 'M': M, 'mode': op.get('mode', 'onecmd')}
            log.add('open', ci, op.get('format'), op.get('numberify'), op.get('mode'))

        last_ret = [None]

        def feed(ci, line, writer_fault=None):
            """Feed one line through the real dispatcher.  Returns (outfile text, stderr text, exception class)."""
            s = sess[ci]
            sh, out = s['sh'], s['out']
            out.take()
            se, so = io.StringIO(), io.StringIO()
            exc = None
            if writer_fault is not None:
                out.arm(writer_fault)
            with contextlib.redirect_stderr(se), contextlib.redirect_stdout(so):
                try:
                    if s['mode'] == 'cmdloop':
                        sh.stdin = io.StringIO(line + '\n')
                        sh.cmdloop()
                        last_ret[0] = None
                    else:
                        last_ret[0] = sh.onecmd(line)
                except core.HarnessError:
                    raise
                except BaseException as e:
                    exc = e
            fired = out.fail_at is None and writer_fault is not None and out.fired > 0
            out.disarm()
            got = out.take()
            if s['mode'] == 'cmdloop':
                # at end of input the real cmdloop prints "exit"; with a writer fault armed the fault
                # may fire inside that print, and the restarted loop prints it again
                import re
                got = re.sub(r'(exit\n?)+$', '', got)
                if exc is None and has_error(se.getvalue()):
                    S.probes['cmdloop_error_path'] += 1
            return got, se.getvalue(), so.getvalue(), exc, fired

        def check_settings(ci, where, op):
            for cj in range(n):
                if sess[cj] is None:
                    continue
                real = sess[cj]['sh'].settings.todict()
                if real != sess[cj]['M']:
                    diff = {k: [sess[cj]['M'].get(k), real.get(k)] for k in set(real) | set(sess[cj]['M'])
                            if real.get(k) != sess[cj]['M'].get(k)}
                    violation('settings-store', where, op, {'session': cj, 'model_vs_real': diff}, None,
                              ':other-session' if cj != ci else ':' + op['op'])
                    sess[cj]['M'] = dict(real)
                if cj != ci and sess[cj]['out'].chunks:
                    violation('session-isolation', where, op, 'nothing written to the other session', sess[cj]['out'].take()[:200])
                elif cj != ci:
                    S.probes['second_session_isolated'] += 1

        def errored(exc, err, mode):
            """An error was reported: message on stderr, or (onecmd) an exception to the caller."""
            return has_error(err) or exc is not None

        def do_statement(ci, where, op, arg_for_ref, refkey, line):
            nonlocal nontrivial
            s = sess[ci]
            M = s['M']
            res, dctx = reference(refkey, arg_for_ref)
            got, err, so, exc, fired = feed(ci, line, op.get('writer_fault'))
            log.add(where, op['op'], line, got, bool(has_error(err)), core.exc_class(exc) if exc else None, fired)
            if res[0] == 'err':
                if not errored(exc, err, s['mode']):
                    violation('statement-error-reported', where, op, f'error ({res[1]})', 'no error reported')
                if got:
                    violation('statement-error-output', where, op, '', got[:300])
                return
            expected = render_expected(res, dctx, M)
            if fired:
                S.probes['writer_fault_prefix'] += 1
                if not expected.startswith(got):
                    violation('writer-fault-not-prefix', where, op, expected[:400], got[:400])
                return
            if exc is not None or has_error(err):
                violation('statement-failed', where, op, 'rendered result', f'{core.exc_class(exc) if exc else ""} {err[:300]}')
                return
            if res[0] == 'print':
                S.probes['print_statement'] += 1
            else:
                if changed_since_render[ci]:
                    S.probes['render_after_setting_change'] += 1
                    nontrivial = True
                    changed_since_render[ci] = False
                if M['numberify']:
                    S.probes['numberify_on_render'] += 1
                if M['format'] == 'csv':
                    S.probes['csv_render'] += 1
                elif not res[2]:
                    S.probes['empty_text_result'] += 1
                elif M['boxed'] and M['unicode']:
                    S.probes['boxed_unicode_render'] += 1
                if M['nullvalue'] and M['nullvalue'] in expected:
                    S.probes['nullvalue_rendered'] += 1
                if M['expand']:
                    S.probes['expand_render'] += 1
            if got != expected:
                violation('shell-output', where, op, expected[:600], got[:600],
                          ':' + ('print' if res[0] == 'print' else M['format']) + (':numberify' if M['numberify'] and res[0] != 'print' else ''))
            if so:
                violation('shell-output-to-stdout', where, op, '', so[:200])

        for (ci, oi) in order:
            op = case['clients'][ci]['ops'][oi]
            where = f's{ci}.{oi}'
            k = op['op']
            stats['ops'] += 1
            if k == 'open':
                open_session(ci, op)
                continue
            if sess[ci] is None:
                open_session(ci, {})
            s = sess[ci]
            M = s['M']
            scans0 = S.scans
            if k == 'set_show_all':
                got, err, so, exc, _ = feed(ci, '.set')
                log.add(where, k, got)
                exp = sorted(f'{name}: {getstr(M[name])}' for name in M)
                lines = got.splitlines()
                if exc or not all(any(echoes(l_, name, M[name]) for l_ in lines) for name in M):
                    violation('set-echo', where, op, exp, got if not exc else core.exc_class(exc))
            elif k == 'set_show':
                got, err, so, exc, _ = feed(ci, f'.set {op["name"]}')
                log.add(where, k, op['name'], got, has_error(err))
                if op['name'] in M:
                    exp = f'{op["name"]}: {getstr(M[op["name"]])}\n'
                    if exc or len(got.splitlines()) != 1 or not echoes(got, op['name'], M[op['name']]):
                        violation('set-echo', where, op, exp, got if not exc else core.exc_class(exc))
                else:
                    if not errored(exc, err, s['mode']) or got:
                        violation('unknown-setting-error', where, op, 'error message, no output', [got, err[:200]])
            elif k == 'set_arity':
                got, err, so, exc, _ = feed(ci, f'.set {op["name"]} ' + ' '.join(op['args']))
                log.add(where, k, got, has_error(err))
                if not errored(exc, err, s['mode']):
                    violation('set-arity-error', where, op, 'error message', [got, err[:200]])
            elif k in ('set', 'legacy_set'):
                line = ('.set ' if k == 'set' else 'set ') + op['name'] + ' ' + shlex.quote(op['value'])
                cls = classify_set(op['name'], op['value'])
                got, err, so, exc, _ = feed(ci, line)
                real = s['sh'].settings.todict()
                log.add(where, k, line, got, has_error(err), core.exc_class(exc) if exc else None,
                        real.get(op['name']) if op['name'] in DEFAULTS else None)
                applied = dict(M)
                if cls[0] != 'invalid':
                    applied[op['name']] = cls[1]
                is_err = errored(exc, err, s['mode'])
                if k == 'legacy_set':
                    S.probes['legacy_bare_command'] += 1
                if cls[0] == 'valid' and k == 'set':
                    if is_err or got:
                        violation('valid-set-rejected', where, op, 'applied silently', [got, err[:200], core.exc_class(exc) if exc else None])
                    if M[op['name']] != cls[1] and op['name'] in RENDER_KEYS:
                        changed_since_render[ci] = True
                    s['M'] = applied
                elif cls[0] == 'invalid' and k == 'set':
                    S.probes['invalid_set_rejected'] += 1
                    if not is_err:
                        violation('invalid-set-no-error', where, op, 'error message', [got, err[:200]])
                else:
                    # either-or: applied exactly (no error), or rejected with an error and nothing changed
                    S.probes['either_or_value'] += 1
                    if is_err:
                        pass            # model unchanged; check_settings verifies nothing changed
                    elif cls[0] == 'invalid':
                        violation('invalid-set-no-error', where, op, 'error message', [got, err[:200]])
                    else:
                        if M[op['name']] != cls[1] and op['name'] in RENDER_KEYS:
                            changed_since_render[ci] = True
                        s['M'] = applied
            elif k == 'script':
                # expected: what the lines print one after the other, under the settings in force at each line
                Mx = dict(M)
                pieces = []
                for sub in op['lines']:
                    if sub['op'] == 'set':
                        Mx[sub['name']] = classify_set(sub['name'], sub['value'])[1]
                    else:
                        res, dctx = reference(('stmt', sub['stmt']), pool[sub['stmt']])
                        pieces.append('' if res[0] == 'err' else render_expected(res, dctx, Mx))
                text = '\n'.join(('.set ' + sub['name'] + ' ' + shlex.quote(sub['value'])) if sub['op'] == 'set' else sub['text']
                                 for sub in op['lines'])
                got, err, so, exc, _ = feed(ci, text)
                log.add(where, k, text, got, bool(has_error(err)), core.exc_class(exc) if exc else None)
                S.probes['several_lines_in_one_cmdloop'] += 1
                if got != ''.join(pieces):
                    violation('script-output', where, op, ''.join(pieces)[:600], got[:600])
                s['M'] = Mx
                if any(Mx[k_] != M[k_] for k_ in RENDER_KEYS):
                    changed_since_render[ci] = True
            elif k == 'stmt':
                if pool[op['stmt']] in ran_texts[ci]:
                    S.probes['named_query_text_typed_after_run'] += 1
                do_statement(ci, where, op, pool[op['stmt']], ('stmt', op['stmt']), op['text'])
            elif k == 'run':
                if op['q'] is None:
                    got, err, so, exc, _ = feed(ci, '.run nosuchquery')
                    asked_missing[ci] = True
                    log.add(where, k, 'missing', got, has_error(err))
                    if not errored(exc, err, s['mode']) or got:
                        violation('run-missing-error', where, op, 'error message, no output', [got, err[:200]])
                else:
                    q = named[op['q']]
                    nm = shlex.quote(q['name'])
                    if op['form'] == 'extra':
                        got, err, so, exc, _ = feed(ci, f'.run {nm} extra')
                        log.add(where, k, 'extra', got, has_error(err))
                        if not errored(exc, err, s['mode']) or got:
                            violation('run-arity-error', where, op, 'error message, no output', [got, err[:200]])
                    else:
                        same = [x for x in named if x['name'] == q['name']]
                        if len(same) > 1:
                            # duplicate names: which definition runs is not pinned; only no-crash and settings are judged
                            got, err, so, exc, _ = feed(ci, f'.run {nm}')
                            log.add(where, k, 'dup', got)
                        else:
                            line = f'.run {nm}' + (';' if op['form'] == 'semicolon' else '')
                            ran_texts[ci].add(query_text(q))
                            if q.get('from'):
                                S.probes['run_explicit_close_kept' if q.get('explicit') else 'run_default_close_applied'] += 1
                                if not q.get('explicit') and not q['head'].startswith('SELECT'):
                                    S.probes['run_default_close_non_select'] += 1
                            do_statement(ci, where, op, query_text(q, with_default_close=True), ('run', op['q']), line)
            elif k in ('tables', 'describe', 'explain'):
                line = {'tables': '.tables', 'describe': f'.describe {op.get("what")}',
                        'explain': f'.explain {pool[op["stmt"]] if k == "explain" else ""}'}[k]
                got, err, so, exc, _ = feed(ci, line)
                log.add(where, k, line, bool(got), core.exc_class(exc) if exc else None)
                if k != 'explain' and exc is not None:
                    violation('introspection-raised', where, op, 'no exception', core.exc_class(exc))
            elif k == 'misc':
                # bookkeeping commands: their output is not compared; they must not disturb the session
                got, err, so, exc, _ = feed(ci, op['text'])
                log.add(where, k, op['text'].split()[0], core.exc_class(exc) if exc else None)
                S.probes['bookkeeping_command'] += 1
                if exc is not None and not op['text'].startswith('.parse'):
                    violation('introspection-raised', where, op, 'no exception', f'{core.exc_class(exc)}: {exc}'[:200])
                if op['text'] == '.run':
                    # the listing names the queries of the ledger; asking for an unknown name earlier changed nothing
                    listing = (got + so).splitlines()
                    if 'nosuchquery' in [l_.strip() for l_ in listing]:
                        violation('run-missing-changed-registry', where, op, 'only the named queries of the ledger', listing[:10])
                    elif asked_missing[ci]:
                        S.probes['run_listing_after_missing_name'] += 1
            elif k == 'comment_line':
                # a line holding nothing but a comment is an empty line: nothing printed, nothing reported, nothing changed
                got, err, so, exc, _ = feed(ci, op['text'])
                log.add(where, k, op['text'], bool(got), has_error(err), core.exc_class(exc) if exc else None)
                S.probes['comment_only_line'] += 1
                if got or so or exc is not None or has_error(err):
                    violation('comment-line-not-ignored', where, op, 'nothing printed, no error',
                              [got[:100], so[:100], err[:200], core.exc_class(exc) if exc else None])
            elif k == 'bareword':
                # only a fixed set of legacy commands is accepted without the dot; any other bare line is a
                # statement for the query parser - here an invalid one: an error, no command output
                got, err, so, exc, _ = feed(ci, op['text'])
                log.add(where, k, op['text'], bool(got), has_error(err), core.exc_class(exc) if exc else None)
                S.probes['bare_non_legacy_word'] += 1
                if got or so:
                    violation('statement-executed-as-command', where, op, 'error, no output', (got or so)[:200])
                elif not errored(exc, err, s['mode']):
                    violation('statement-executed-as-command', where, op, 'error reported', 'no error')
            elif k == 'badquote':
                # "invalid values ... produce an error message and change nothing": the shell reports it like
                # every other invalid argument - a message, not an exception thrown at whoever fed the line
                # (the command-line entry point feeds its argument through onecmd unguarded)
                got, err, so, exc, _ = feed(ci, op['text'])
                log.add(where, k, op['text'], bool(got), has_error(err), core.exc_class(exc) if exc else None)
                S.probes['malformed_quoting_argument'] += 1
                if exc is not None:
                    violation('malformed-argument-raised', where, op, 'error message', f'{core.exc_class(exc)}: {exc}'[:200])
                elif got or so or S.scans != scans0:
                    violation('malformed-argument-executed', where, op, 'error message, no output', (got or so)[:200])
                elif not has_error(err):
                    violation('malformed-argument-no-error', where, op, 'error message', err[:200])
            elif k in ('unknown', 'dotkw'):
                got, err, so, exc, _ = feed(ci, op['text'])
                log.add(where, k, op['text'], bool(got), has_error(err), core.exc_class(exc) if exc else None)
                if k == 'dotkw':
                    S.probes['dot_keyword_not_executed'] += 1
                if got or S.scans != scans0:
                    violation('dot-command-executed-as-query', where, op, 'no output, no table scan', got[:200])
                elif not errored(exc, err, s['mode']):
                    violation('unknown-command-no-error', where, op, 'error message', err[:200])
            else:
                raise core.HarnessError(k)
            if last_ret[0]:
                # cmd.Cmd stops its loop on a truthy return of onecmd: none of the generated lines asks to leave
                violation('line-ends-session', where, op, 'falsy return (the session goes on)', repr(last_ret[0])[:80])
            last_ret[0] = None
            if k in ('set_show_all', 'set_show', 'set_arity', 'set', 'legacy_set', 'tables', 'describe') and S.scans != scans0:
                violation('command-executed-as-query', where, op, 'no table scan', 'table scanned')
            check_settings(ci, where, op)
        stats['nontrivial'] = nontrivial
    finally:
        world.set_current(None)
    stats['steps'] = S.steps
    stats['probes'] = dict(S.probes)
    stats['faults_fired'] = {'writer_error': S.probes.get('writer_fault_prefix', 0)} if S.probes.get('writer_fault_prefix') else {}
    stats['shell_runs'] = 1
    out = {'digest': log.digest(), 'violations': viols, 'stats': stats}
    if keep_log:
        out['log'] = log.events
    return out


# ---------------------------------------------------------------------------
# execution: simulated CLI process runs

class FakeStdin(io.StringIO):
    def isatty(self):
        return False


class FakeStdout(io.TextIOWrapper):
    def __init__(self):
        super().__init__(io.BytesIO(), encoding='utf-8', newline='')

    def isatty(self):
        return False

    def value(self):
        self.flush()
        return self.buffer.getvalue().decode('utf-8')


def execute_cli(case, keep_log=False):
    W = case['world']
    C = case['cli']
    log = core.EventLog(keep=keep_log)
    viols = []
    stats = {'ops': 1, 'cli_runs': 1}
    probes = {}
    world.set_current(None)

    def violation(oracle, expected, observed, sigx=''):
        viols.append({'oracle': oracle, 'where': 'cli', 'op': {'op': 'cli', **C}, 'expected': expected, 'observed': observed,
                      'sig': f'C19:cli-{oracle}{sigx}'})

    scratch = tempfile.mkdtemp(prefix='bqsim-cli-')
    saved = (sys.stdin, sys.stdout, sys.stderr, os.environ.get('HOME'), os.environ.get('BEANCOUNT_DISABLE_LOAD_CACHE'))
    try:
        ledger_path = os.path.join(scratch, 'ledger.beancount')
        with open(ledger_path, 'w') as f:
            f.write(world.render_ledger(W['ledger']))
        out_path = os.path.join(scratch, 'result.out')
        os.environ['HOME'] = scratch
        os.environ['BEANCOUNT_DISABLE_LOAD_CACHE'] = '1'
        M = dict(DEFAULTS)
        if C.get('init'):
            os.makedirs(os.path.join(scratch, '.config', 'beanquery'))
            with open(os.path.join(scratch, '.config', 'beanquery', 'init'), 'w') as f:
                f.write('\n'.join(C['init']) + '\n')
            for line in C['init']:
                if not line.startswith('.set'):
                    continue            # a comment line
                _, name, value = line.split(None, 2)
                M[name] = classify_set(name, value)[1]
                if name in ('format', 'numberify'):
                    probes['cli_init_sets_format_or_numberify'] = 1
            probes['cli_init_file'] = 1
        args = [ledger_path]
        if C.get('format'):
            args += (['--format', C['format']] if C.get('long_opts') else ['-f', C['format']])
            M['format'] = C['format']
        if C.get('numberify'):
            args += ['--numberify' if C.get('long_opts') else '-m']
            M['numberify'] = True
        if C.get('output'):
            args += (['--output', out_path] if C.get('long_opts') else ['-o', out_path])
            probes['cli_output_file'] = 1
            if C.get('stale_output'):
                # the report of an earlier run is still there: -o redirects the result of THIS run
                with open(out_path, 'w') as f:
                    f.write('STALE RESULT OF AN EARLIER RUN\n')
                probes['cli_output_file_preexisting'] = 1
        if C.get('quiet'):
            args += ['--no-errors' if C.get('long_opts') else '-q']
        if C.get('stdin'):
            stdin = FakeStdin(C['stmt'] + '\n')
            probes['cli_stdin_query'] = 1
        else:
            stdin = FakeStdin('')
            args += [C['stmt']]
        # expected: API result on an independently loaded copy, rendered by the model
        with world.reference_mode():
            rc = world.make_connection(W['ledger'], (), copy=1, sim_tables=False)
            res = api_result(rc, C['stmt'])
            expected = render_expected(res, rc.options['dcontext'], M) if res[0] != 'err' else None
        fo, fe = FakeStdout(), FakeStdout()
        sys.stdin, sys.stdout, sys.stderr = stdin, fo, fe
        exc = None
        try:
            shell.main(args=args, standalone_mode=False)
        except core.HarnessError:
            raise
        except BaseException as e:
            exc = e
        finally:
            sys.stdin, sys.stdout, sys.stderr = saved[0], saved[1], saved[2]
        so, se = fo.value(), fe.value()
        result = None
        if C.get('output'):
            try:
                with open(out_path, newline='') as f:
                    result = f.read()
            except FileNotFoundError:
                result = None   # -o FILE: the file holds the result of this run, even an empty one
        log.add('cli', [a if not a.startswith(scratch) else os.path.basename(a) for a in args], so, result,
                core.exc_class(exc) if exc else None, 'Transaction does not balance' in se)
        if res[0] == 'err':
            pass     # failing statements are not part of the CLI clause
        else:
            if exc is not None:
                violation('failed', 'rendered result', f'{core.exc_class(exc)}: {exc}')
            else:
                if C.get('output'):
                    if result != expected:
                        violation('output-file', expected[:500], None if result is None else result[:500])
                    if so.strip():
                        violation('output-leaks-to-stdout', '', so[:300])
                elif so != expected:
                    violation('stdout', expected[:500], so[:500],
                              ':' + M['format'] + (':numberify' if M['numberify'] and res[0] == 'table' else ''))
        report = 'does not balance' in se
        if W.get('with_errors'):
            if C.get('quiet'):
                probes['cli_quiet_with_errors'] = 1
                if report:
                    violation('quiet-prints-error-report', 'no ledger error report on stderr', se[:300])
            elif not report:
                violation('error-report-missing', 'ledger error report on stderr', se[:300])
        elif report:
            violation('spurious-error-report', '', se[:300])
    finally:
        sys.stdin, sys.stdout, sys.stderr = saved[0], saved[1], saved[2]
        if saved[3] is None:
            os.environ.pop('HOME', None)
        else:
            os.environ['HOME'] = saved[3]
        if saved[4] is None:
            os.environ.pop('BEANCOUNT_DISABLE_LOAD_CACHE', None)
        else:
            os.environ['BEANCOUNT_DISABLE_LOAD_CACHE'] = saved[4]
        shutil.rmtree(scratch, ignore_errors=True)
    stats['nontrivial'] = bool(C.get('format') or C.get('numberify') or C.get('output') or C.get('quiet'))
    stats['probes'] = probes
    stats['faults_fired'] = {}
    stats['steps'] = 0
    out = {'digest': log.digest(), 'violations': viols, 'stats': stats}
    if keep_log:
        out['log'] = log.events
    return out


# ---------------------------------------------------------------------------

def simplify(case):
    W = case['world']
    n = len(W['ledger']['dirs'])
    txn_idx = [i for i, d in enumerate(W['ledger']['dirs']) if d['k'] != 'query']
    if W.get('with_errors') and txn_idx:
        txn_idx = txn_idx[:-1]          # keep the transaction that makes the ledger report errors
    if len(txn_idx) > 1:
        for cut in (len(txn_idx) // 2, len(txn_idx) - 1):
            c = copy.deepcopy(case)
            drop = set(txn_idx[cut:])
            c['world']['ledger']['dirs'] = [d for i, d in enumerate(W['ledger']['dirs']) if i not in drop]
            yield c
    if case.get('kind') == 'cli':
        for key in ('numberify', 'output', 'quiet', 'stdin', 'long_opts', 'format', 'init'):
            if case['cli'].get(key):
                c = copy.deepcopy(case)
                c['cli'][key] = None if key in ('format', 'init') else False
                yield c
        return
    for ci, cl in enumerate(case['clients']):
        for oi, op in enumerate(cl['ops']):
            if op.get('writer_fault') is not None:
                c = copy.deepcopy(case)
                del c['clients'][ci]['ops'][oi]['writer_fault']
                yield c
            if op.get('op') == 'open' and (op.get('mode') == 'cmdloop' or op.get('numberify') or op.get('format') == 'csv'):
                c = copy.deepcopy(case)
                c['clients'][ci]['ops'][oi] = {'op': 'open', 'format': 'text', 'numberify': False, 'mode': 'onecmd'}
                yield c


def sample(case, out):
    if case.get('kind') == 'cli':
        return {'kind': 'cli', 'cli': case['cli'], 'ledger_has_errors': case['world'].get('with_errors'),
                'violations': len(out['violations'])}
    return {'kind': 'shell', 'sessions': [[_line(case, o) for o in c['ops']] for c in case['clients']],
            'schedule': case['schedule'][:60], 'named_queries': [query_text(q) for q in case['world']['named']],
            'violations': len(out['violations'])}


def _line(case, op):
    k = op['op']
    if k == 'open':
        return f'<open format={op.get("format")} numberify={op.get("numberify")} mode={op.get("mode")}>'
    if k == 'stmt':
        return op['text'] + (f'  <writer fault at write {op["writer_fault"]}>' if op.get('writer_fault') is not None else '')
    if k in ('set', 'legacy_set'):
        return ('.set ' if k == 'set' else 'set ') + op['name'] + ' ' + shlex.quote(op['value'])
    if k == 'run':
        return '.run ' + (case['world']['named'][op['q']]['name'] if op['q'] is not None else 'nosuchquery') + f' <{op["form"]}>'
    if k in ('unknown', 'dotkw', 'bareword', 'misc', 'comment_line', 'badquote'):
        return op['text']
    if k == 'script':
        return '<one cmdloop call> ' + ' | '.join(_line(case, sub) for sub in op['lines'])
    if k == 'set_show':
        return f'.set {op["name"]}'
    if k == 'set_show_all':
        return '.set'
    return '.' + k
