"""Core utilities: tree selection, seed derivation, canonical serialisation,
event log, process hygiene.

Nothing in here draws from a PRNG or reads a clock.
"""

import datetime
import decimal
import hashlib
import json
import os
import random
import sys
import warnings

VERIF_DIR = os.path.dirname(os.path.dirname(os.path.abspath(__file__)))
_BOOTSTRAPPED = None


def repo_dir():
    return os.path.abspath(os.environ.get('BQSIM_REPO', '/repo'))


def bootstrap():
    """Make `import beanquery` resolve to the tree under test and import every
    beanquery/beancount module the simulation will touch, in the main thread,
    so no import lock is ever taken inside a simulated thread."""
    global _BOOTSTRAPPED
    if _BOOTSTRAPPED:
        return _BOOTSTRAPPED
    repo = repo_dir()
    if not os.path.isdir(os.path.join(repo, 'beanquery')):
        raise RuntimeError(f'no beanquery package under {repo}')
    if sys.path[0] != repo:
        sys.path.insert(0, repo)
    sys.dont_write_bytecode = True
    import beanquery
    where = os.path.dirname(os.path.abspath(beanquery.__file__))
    if os.path.dirname(where) != repo:
        raise RuntimeError(f'beanquery imported from {where}, expected under {repo}')
    import beanquery.parser  # noqa
    import beanquery.compiler  # noqa
    import beanquery.cursor  # noqa
    import beanquery.query_compile  # noqa
    import beanquery.query_env  # noqa
    import beanquery.query_execute  # noqa
    import beanquery.query_render  # noqa
    import beanquery.numberify  # noqa
    import beanquery.sources.beancount  # noqa
    import beanquery.shell  # noqa
    import beanquery.render.text  # noqa
    import beanquery.render.csv  # noqa
    import beancount.loader  # noqa
    import beancount.ops.summarize  # noqa
    import beancount.parser.printer  # noqa
    _BOOTSTRAPPED = beanquery
    return beanquery


# ---------------------------------------------------------------------------
# seeds

def derive_seed(master, prop, run):
    """One 64-bit sub-seed per (master seed, property, run index)."""
    h = hashlib.sha256(f'{master}/{prop}/{run}'.encode()).digest()
    return int.from_bytes(h[:8], 'big')


def rng_for(master, prop, run, stream=''):
    h = hashlib.sha256(f'{master}/{prop}/{run}/{stream}'.encode()).digest()
    return random.Random(int.from_bytes(h[:8], 'big'))


def master_seed(default):
    v = os.environ.get('VERIF_SEED')
    if v is None or v == '':
        return default
    try:
        return int(v)
    except ValueError:
        return int.from_bytes(hashlib.sha256(v.encode()).digest()[:6], 'big')


# ---------------------------------------------------------------------------
# canonical, type-tagged serialisation

def canon(v):
    """Canonical JSON-able form of a result value.  'Exactly' means exactly:
    Decimal keeps its exponent, bool is not int, sets are sorted."""
    if v is None:
        return None
    t = type(v)
    if t is bool:
        return ['b', v]
    if t is int:
        return ['i', v]
    if t is str:
        return ['s', v]
    if t is decimal.Decimal:
        return ['D', str(v)]
    if t is datetime.date:
        return ['d', v.isoformat()]
    if t is float:
        return ['f', repr(v)]
    if t in (list, tuple):
        return ['L' if t is list else 'T', [canon(x) for x in v]]
    if t in (set, frozenset):
        return ['S', sorted((canon(x) for x in v), key=lambda c: json.dumps(c, sort_keys=True))]
    if t is dict:
        return ['M', sorted(([canon(k), canon(x)] for k, x in v.items()),
                            key=lambda c: json.dumps(c, sort_keys=True))]
    name = t.__name__
    if name == 'Inventory':
        return ['Inv', sorted((canon(p) for p in v.get_positions()),
                              key=lambda c: json.dumps(c, sort_keys=True))]
    if name == 'Position':
        return ['Pos', canon(v.units), canon(v.cost)]
    if name == 'Amount':
        return ['Amt', canon(v.number), v.currency]
    if name in ('Cost', 'CostSpec'):
        return [name, [canon(x) for x in v]]
    if name == 'relativedelta':
        return ['rd', repr(v)]
    if isinstance(v, tuple) and hasattr(v, '_fields'):
        # beancount directives and postings (namedtuples); meta may hold
        # absolute filenames and line numbers, which are stable in a run.
        return ['NT', name, [canon(x) for x in v]]
    if isinstance(v, dict):
        return ['M:' + name, sorted(([canon(k), canon(x)] for k, x in v.items()),
                                    key=lambda c: json.dumps(c, sort_keys=True))]
    if isinstance(v, (set, frozenset)):
        return canon(set(v))
    if isinstance(v, int):       # enums
        return ['E', name, int(v)]
    return ['O', name, str(v)]


def canon_rows(rows):
    return [canon(tuple(r)) for r in rows]


def canon_desc(desc):
    if desc is None:
        return None
    return [[c.name, type_name(c.datatype)] for c in desc]


def type_name(t):
    return getattr(t, '__name__', str(t))


def jdump(x):
    return json.dumps(x, sort_keys=True, separators=(',', ':'), default=str)


def digest(x):
    return hashlib.sha256(jdump(x).encode()).hexdigest()


class EventLog:
    """Append-only log of a run.  The digest of this log is what the
    determinism self-test compares."""

    def __init__(self, keep=True):
        self.keep = keep
        self.events = []
        self._h = hashlib.sha256()
        self.n = 0

    def add(self, *ev):
        s = jdump(ev)
        self._h.update(s.encode())
        self._h.update(b'\n')
        self.n += 1
        if self.keep:
            self.events.append(s)

    def digest(self):
        return self._h.hexdigest()


# ---------------------------------------------------------------------------
# harness exceptions

class SimStorageError(OSError):
    """Injected: the row source failed in the middle of a scan."""


class SimUdfError(Exception):
    """Injected: user function failed."""


class SimCancel(BaseException):
    """Injected: cancellation / KeyboardInterrupt-like at an evaluation step."""


class HarnessError(Exception):
    """A defect of the harness itself - never reported as VIOLATION."""


INJECTED = (SimStorageError, SimUdfError, SimCancel)


def exc_class(e):
    return type(e).__name__


# ---------------------------------------------------------------------------
# process hygiene

_ORIG_SHOWWARNING = warnings.showwarning


def reset_process_state():
    """Make a run a pure function of its seed, not of which runs the worker
    executed earlier."""
    bootstrap()
    from beanquery import query_env, shell
    bal = getattr(query_env, 'balance', None)
    if hasattr(bal, 'cache_clear'):
        bal.cache_clear()
    warnings.resetwarnings()
    warnings.simplefilter('ignore')
    warnings.showwarning = _ORIG_SHOWWARNING
    for cls in (shell.DispatchingShell, shell.BQLShell):
        for name in [n for n in cls.__dict__ if n.startswith('help_') and
                     getattr(cls.__dict__[n], '__name__', '') == '<lambda>']:
            delattr(cls, name)
