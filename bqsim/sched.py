"""Baton-passing scheduler for real threads.

Each simulated caller is a real threading.Thread; exactly one holds the baton
at any time.  At every yield point the running thread decides - from the
seeded PRNG, or from a recorded decision list when replaying - whether to hand
the baton to another runnable thread.  The OS never chooses who runs.

Yield points: harness sites (row boundaries of Sim tables, verif_yield calls,
operation boundaries) and, when `trace_lines` is on, every Python line event
in the traced beanquery source files (sys.settrace).

Decisions are recorded as [step, thread] pairs for the steps at which a switch
happened; replay forces exactly those switches (a decision naming a finished
thread falls back to the lowest runnable id; with no decision the current
thread keeps running).
"""

import collections
import os
import sys
import threading

from . import core
from .core import SimStorageError, SimUdfError, SimCancel, HarnessError

_tls = threading.local()

WATCHDOG_S = 120


def traced_files(with_parser=False):
    root = os.path.join(core.repo_dir(), 'beanquery')
    out = set()
    for d, _, files in os.walk(root):
        if os.path.basename(d) in ('tests', '__pycache__') or (os.path.basename(d) == 'parser' and not with_parser):
            continue
        for f in files:
            if f.endswith('.py') and not f.endswith('_test.py'):
                out.add(os.path.join(d, f))
    return out


class StepBudgetExceeded(BaseException):
    """The run used far more scheduling steps than any healthy run does: a statement that does not come back
    (e.g. a parser state corrupted by another thread).  Raised inside the running thread; the client records it
    as the outcome of its statement, which then differs from the serial outcome."""


MAX_STEPS = 400000


class ThreadSim:
    inert = False

    def __init__(self, log, nthreads, rng=None, strategy=None, forced=None, trace_lines=False):
        self.log = log
        self.n = nthreads
        self.rng = rng
        self.strategy = strategy or {'kind': 'random', 'p': 0.1}
        self.forced = None if forced is None else {int(s): int(t) for s, t in forced}
        self.trace_lines = trace_lines
        self.files = traced_files(with_parser=(trace_lines == 'parser')) if trace_lines else ()
        self.sems = [threading.Semaphore(0) for _ in range(nthreads)]
        self.main_sem = threading.Semaphore(0)
        self.finished = [False] * nthreads
        self.started = [False] * nthreads
        self.cur = None
        self.steps = 0
        self.switches = 0
        self.decisions = []
        self.errors = []
        self.fired = collections.Counter()
        self.probes = collections.Counter()
        self.armed = [None] * nthreads
        self.udf_calls = [collections.Counter() for _ in range(nthreads)]
        self.site = [None] * nthreads          # last yield site of each thread
        self.flags = [dict() for _ in range(nthreads)]
        self.pairs = collections.Counter()
        self.scans = 0
        self.hold_until = -1
        self.budget_hit = [False] * nthreads
        # PCT state
        st = self.strategy
        if st['kind'] == 'pct' and rng is not None:
            self.prio = list(range(nthreads))
            rng.shuffle(self.prio)
            est = max(10, st.get('est', 200))
            self.change = set(rng.randrange(est) for _ in range(st.get('d', 1)))
            self.low = -1

    # -- identity ------------------------------------------------------
    @staticmethod
    def me():
        return getattr(_tls, 'tid', None)

    def runnable(self, exclude=None):
        return [t for t in range(self.n) if not self.finished[t] and t != exclude]

    # -- decisions -----------------------------------------------------
    def _decide(self, me, step, finishing=False):
        others = self.runnable(exclude=me)
        if not others:
            return None
        if self.forced is not None:
            to = self.forced.get(step)
            if to is None:
                return min(others) if finishing else None
            if to == me or self.finished[to] or not (0 <= to < self.n):
                return min(others) if finishing else None
            return to
        k = self.strategy['kind']
        rng = self.rng
        if finishing:
            if k == 'pct':
                return max(others, key=lambda t: self.prio[t])
            return rng.choice(others)
        if k == 'random':
            # after a switch the new thread runs a burst of steps undisturbed: one thread parked at an
            # arbitrary line while another makes real progress is the shape of check-then-act races
            if step < self.hold_until:
                return None
            if rng.random() < self.strategy['p']:
                burst = self.strategy.get('burst', 0)
                if burst:
                    self.hold_until = step + 1 + rng.randrange(burst)
                return rng.choice(others)
            return None
        if k == 'rr':
            q = self.strategy['q']
            if step % q == q - 1:
                later = [t for t in others if t > me]
                return min(later) if later else min(others)
            return None
        if k == 'pct':
            if step in self.change:
                self.prio[me] = self.low
                self.low -= 1
            best = max(others + [me], key=lambda t: self.prio[t])
            return best if best != me else None
        if k == 'serial':
            return None
        raise HarnessError(f'unknown strategy {k}')

    # -- baton ---------------------------------------------------------
    def yield_point(self, site):
        me = self.me()
        if me is None or self.cur != me:
            return
        step = self.steps
        self.steps += 1
        if step > MAX_STEPS and not self.budget_hit[me]:
            self.budget_hit[me] = True
            raise StepBudgetExceeded(f'more than {MAX_STEPS} scheduling steps')
        self.site[me] = site
        to = self._decide(me, step)
        if to is None:
            return
        self.decisions.append([step, to])
        self.switches += 1
        self.pairs[f'{site_class(site)}>{site_class(self.site[to])}'] += 1
        self.on_switch(me, to, site)
        self.cur = to
        self.sems[to].release()
        self.sems[me].acquire()

    def on_switch(self, me, to, site):
        """Hook for property modules (probes)."""

    def _thread_main(self, tid, fn):
        _tls.tid = tid
        self.sems[tid].acquire()
        self.started[tid] = True
        if self.trace_lines:
            sys.settrace(self._tracer)
        try:
            fn()
        except HarnessError as e:
            self.errors.append(e)
        except BaseException as e:      # client code must catch its own outcomes
            self.errors.append(HarnessError(f'uncaught in simulated thread {tid}: {type(e).__name__}: {e}'))
        finally:
            sys.settrace(None)
            step = self.steps
            self.steps += 1
            self.finished[tid] = True
            to = self._decide(tid, step, finishing=True)
            if to is None:
                self.cur = None
                self.main_sem.release()
            else:
                self.decisions.append([step, to])
                self.cur = to
                self.sems[to].release()

    def _tracer(self, frame, event, arg):
        if event == 'call' and frame.f_code.co_filename in self.files:
            return self._line_tracer
        return None

    def _line_tracer(self, frame, event, arg):
        if event == 'line':
            self.yield_point(('line', os.path.basename(frame.f_code.co_filename), frame.f_lineno))
        return self._line_tracer

    def run(self, fns):
        """Run the client functions as threads under the scheduler; returns
        when all have finished."""
        threads = [threading.Thread(target=self._thread_main, args=(i, fn), daemon=True, name=f'sim-{i}')
                   for i, fn in enumerate(fns)]
        for t in threads:
            t.start()
        # initial choice is a decision like any other (step -1)
        if self.forced is not None:
            first = self.forced.get(-1, 0)
            if not (0 <= first < self.n):
                first = 0
        elif self.strategy['kind'] == 'pct':
            first = max(range(self.n), key=lambda t: self.prio[t])
        elif self.strategy['kind'] in ('rr', 'serial'):
            first = 0
        else:
            first = self.rng.randrange(self.n)
        self.decisions.append([-1, first])
        self.cur = first
        self.sems[first].release()
        if not self.main_sem.acquire(timeout=WATCHDOG_S):
            raise HarnessError(f'scheduler watchdog expired (cur={self.cur}, finished={self.finished}, steps={self.steps})')
        for t in threads:
            t.join(timeout=10)
        if self.errors:
            raise self.errors[0]

    # -- seams (called from beanquery through world.current()) ---------
    def arm(self, tid, fault):
        self.armed[tid] = dict(fault) if fault else None
        self.udf_calls[tid].clear()

    def disarm(self, tid):
        a = self.armed[tid]
        self.armed[tid] = None
        return bool(a and a.get('_fired'))

    def begin_scan(self, table):
        self.scans += 1
        return self.scans

    def end_scan(self, scan, table):
        pass

    def scan_point(self, scan, table, rowno):
        me = self.me()
        if me is None:
            return
        a = self.armed[me]
        if a and a['kind'] == 'storage' and not a.get('_fired') and a['table'] == table and a['row'] == rowno:
            a['_fired'] = True
            self.fired['storage_error'] += 1
            raise SimStorageError(5, f'injected read error in {table} at row {rowno}')
        self.yield_point(('scan', table))

    def expr_point(self, site, phase):
        self.yield_point(('expr', site, phase))

    def fault_point(self, k):
        me = self.me()
        if me is None:
            return
        a = self.armed[me]
        if a and a['kind'] in ('udf', 'cancel') and not a.get('_fired') and a.get('k', 0) == k:
            n = self.udf_calls[me][k]
            self.udf_calls[me][k] += 1
            if n == a['n']:
                a['_fired'] = True
                if a['kind'] == 'udf':
                    self.fired['udf_error'] += 1
                    raise SimUdfError(f'injected user-function error at call {n}')
                self.fired['cancel'] += 1
                raise SimCancel(f'injected cancellation at call {n}')
        self.yield_point(('fault', k))

    def reenter(self, k, value):
        self.yield_point(('reenter', k))

    def current_rowno(self):
        return None


def site_class(site):
    if site is None:
        return 'start'
    if site[0] == 'line':
        return f'{site[1]}:{site[2]}'
    return ':'.join(str(x) for x in site)


def gen_strategy(rng, tier, est_steps):
    """Swarm: one scheduling strategy per run."""
    r = rng.random()
    if r < 0.5:
        if tier == 'thorough' or est_steps > 1500:
            p = rng.choice([0.003, 0.01, 0.03, 0.1, 0.3])
        else:
            p = rng.choice([0.03, 0.1, 0.2, 0.4])
        return {'kind': 'random', 'p': p, 'burst': rng.choice([0, 0, 10, 100, 1000] if (tier == 'thorough' or est_steps > 1500) else [0, 0, 5, 30])}
    if r < 0.8:
        return {'kind': 'pct', 'd': rng.choice([1, 2, 3]), 'est': est_steps}
    return {'kind': 'rr', 'q': rng.choice([1, 2, 3, 5, 8, 13, 40])}
