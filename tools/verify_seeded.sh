#!/bin/bash
# Confirm a sub-agent's change: tools/verify_seeded.sh /tmp/mut-NN mK
#  1. patch applies on the clean worktree, 2. pinned suite still 241/241, 3. demo exits 1 with the change,
#  4. demo exits 0 without it.  Prints a one-line verdict.
W=$1; M=$2; D=$W/OUT/$M
[ -f $D/patch.diff ] || { echo "$W $M: no patch"; exit 2; }
git -C $W checkout -q -- . ; git -C $W status --short | grep -v '^??' && { echo "worktree dirty"; exit 2; }
git -C $W apply $D/patch.diff || { echo "$W $M: PATCH DOES NOT APPLY"; exit 2; }
FILES=$(git -C $W diff --name-only | tr '\n' ' ')
B=$(/tmp/baseline.sh $W | tail -1)
(cd $W && PYTHONPATH=$W timeout 300 /venv/bin/python OUT/$M/demo.py >/tmp/demo-$$.out 2>&1); RC1=$?
git -C $W checkout -q -- .
(cd $W && PYTHONPATH=$W timeout 300 /venv/bin/python OUT/$M/demo.py >/dev/null 2>&1); RC0=$?
echo "$W $M: files=[$FILES] $B demo_with=$RC1 demo_without=$RC0"
tail -3 /tmp/demo-$$.out | cut -c1-300; rm -f /tmp/demo-$$.out
