#!/bin/bash
# Run every seeded change against the check(s) of the property it breaks (quick run counts) and write seeded/RESULTS.md
cd "$(dirname "$(readlink -f "$0")")/.."
declare -A RUNS=( [C09]=3000 [C10]=12000 [C12]=3200 [C19]=2700 [C20]=3000 )
OUT=seeded/RESULTS.md
echo "| change | property | result (quick tier unless stated) |" > $OUT; echo "|---|---|---|" >> $OUT
for d in seeded/*/; do
  id=$(basename $d); if grep -q obsolete_on_head $d/meta.json; then echo "| $id | - | obsolete on /repo HEAD (see meta.json) |" >> $OUT; continue; fi; props=$(/venv/bin/python -c "import json;print(json.load(open('$d/meta.json'))['breaks_property'])")
  case "$props" in none*) plist="C09 C10 C12 C19 C20"; runs=1500;; *) plist=$(echo $props | tr ',' ' '); runs=0;; esac
  for p in $plist; do
    r=$runs; [ $r -eq 0 ] && r=${RUNS[$p]}
    tier=$(/venv/bin/python -c "import json;print(json.load(open('$d/meta.json')).get('tier_needed','quick'))")
    [ "$tier" = thorough ] && r=8000
    res=$(TIER=$tier tools/try_mutant.sh $d/patch.diff $r $p | head -1 | cut -c1-260)
    [ "$tier" = thorough ] && res="(thorough tier, $r runs) $res"
    echo "| $id | $p | $res |" >> $OUT
  done
done
cat $OUT
