#!/bin/bash
# Run the repository's pinned test suite on a tree (default /repo) and compare with BASELINE.json stable_pass.
# usage: tools/baseline.sh [tree]
TREE=${1:-/repo}
OUT=$(mktemp /tmp/bq-junit-XXXX.xml)
cd "$TREE" && /venv/bin/python -m pytest -ra -q -p no:cacheprovider --timeout=900 --continue-on-collection-errors --junitxml="$OUT" >/dev/null 2>&1
/venv/bin/python - "$OUT" <<'PY'
import json,sys,xml.etree.ElementTree as ET
base=json.load(open('/root/.vp/BASELINE.json'))
want=set(base['stable_pass'])
passed=set()
for tc in ET.parse(sys.argv[1]).getroot().iter('testcase'):
    ok=not any(ch.tag in ('failure','error','skipped') for ch in tc)
    if ok: passed.add(f"{tc.get('classname')}::{tc.get('name')}")
missing=sorted(want-passed)
print(f"baseline: {len(want&passed)}/{len(want)} stable tests pass; missing={missing[:10]}")
sys.exit(1 if missing else 0)
PY
RC=$?
rm -f "$OUT"
exit $RC
