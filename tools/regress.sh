#!/bin/bash
# Replay every regression replay against the original (pre-fix) tree and against /repo:
# each must reproduce (class and digest) on the original tree and show no violation on /repo.
ROOT=$(cd "$(dirname "$(readlink -f "$0")")/.." && pwd)
W=$(mktemp -d /tmp/bqsim-orig-XXXXXX); rmdir "$W"
git -C /repo worktree add --detach -q "$W" 22c33c4 || exit 2
trap 'git -C /repo worktree remove --force "$W" >/dev/null 2>&1' EXIT
RC=0
for f in "$ROOT"/replays/regress/*.json; do
  BQSIM_REPO="$W" /venv/bin/python "$ROOT/run_check.py" --replay "$f" --quiet >/dev/null; a=$?
  /venv/bin/python "$ROOT/run_check.py" --replay "$f" --quiet >/dev/null; b=$?
  echo "$(basename "$f"): original tree rc=$a (want 1)  /repo rc=$b (want 0)"
  [ $a -eq 1 ] && [ $b -eq 0 ] || RC=1
done
exit $RC
