#!/bin/bash
# Replay every regression replay against the original (pre-fix) tree and against /repo:
# each must show its violation on the original tree (rc 1 = same class and digest; rc 3 = a violation with another
# digest, possible for replays recorded after earlier repairs) and none on /repo (except the open finding F11).
ROOT=$(cd "$(dirname "$(readlink -f "$0")")/.." && pwd)
W=$(mktemp -d /tmp/bqsim-orig-XXXXXX); rmdir "$W"
git -C /repo worktree add --detach -q "$W" 22c33c4 || exit 2
trap 'git -C /repo worktree remove --force "$W" >/dev/null 2>&1' EXIT
RC=0
for f in "$ROOT"/replays/regress/*.json; do
  BQSIM_REPO="$W" /venv/bin/python "$ROOT/run_check.py" --replay "$f" --quiet >/dev/null; a=$?
  /venv/bin/python "$ROOT/run_check.py" --replay "$f" --quiet >/dev/null; b=$?
  want=0; case "$(basename "$f")" in F11-*|F17-*) want=1;; esac    # open known findings: still reproduce on /repo
  echo "$(basename "$f"): original tree rc=$a (want 1 or 3)  /repo rc=$b (want $want)"
  case "$(basename "$f")" in
    F7b-*) # a regression of repair 7b6da18, absent from the original tree: it must show on neither tree
      [ $a -eq 0 ] && [ $b -eq 0 ] || RC=1;;
    *) { [ $a -eq 1 ] || [ $a -eq 3 ]; } && [ $b -eq $want ] || RC=1;;
  esac
done
exit $RC
