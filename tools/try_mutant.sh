#!/bin/bash
# Run bqsim checks against a mutant of /repo without touching /repo:
#   tools/try_mutant.sh <patch.diff> <runs> <PROP> [PROP...]
# Creates a scratch git worktree of /repo HEAD under /tmp, applies the patch, points the checks at it with
# BQSIM_REPO, prints one line per property (DETECTED / missed), removes the worktree.  Evidence files written
# during these runs are restored afterwards (they must describe runs against /repo itself).
set -u
ROOT=$(cd "$(dirname "$(readlink -f "$0")")/.." && pwd)
PATCH=$(readlink -f "$1"); RUNS=$2; shift 2
W=$(mktemp -d /tmp/bqsim-mut-XXXXXX)
rmdir "$W"
git -C /repo worktree add --detach -q "$W" HEAD || exit 2
trap 'git -C /repo worktree remove --force "$W" >/dev/null 2>&1; rm -rf "$W"' EXIT
if ! git -C "$W" apply "$PATCH"; then echo "PATCH DOES NOT APPLY"; exit 2; fi
SAVE=$(mktemp -d /tmp/bqsim-ev-XXXXXX); cp $ROOT/evidence/*.json "$SAVE"/ 2>/dev/null
for P in "$@"; do
  T0=$(date +%s)
  OUT=$(BQSIM_REPO="$W" /venv/bin/python $ROOT/run_check.py "$P" --tier "${TIER:-quick}" --runs "$RUNS" 2>&1); RC=$?
  T1=$(date +%s)
  SIGS=$(echo "$OUT" | grep -o 'signature: .*' | sort -u | tr '\n' ';')
  if [ $RC -eq 1 ]; then echo "$P DETECTED rc=1 in $((T1-T0))s  $SIGS"
  elif [ $RC -eq 0 ]; then echo "$P missed rc=0 in $((T1-T0))s"
  else echo "$P HARNESS rc=$RC"; echo "$OUT" | tail -15; fi
  rm -f $ROOT/replays/$P-*.json
done
cp "$SAVE"/*.json $ROOT/evidence/ 2>/dev/null; rm -rf "$SAVE"
